#!/bin/bash
# offline: put icontract beside the repository's interpreter (git-ignored .deps).
# A failed install is not fatal: vt/contracts.py falls back to an equivalent shim.
HERE="$(cd "$(dirname "${BASH_SOURCE[0]}")" && pwd)"
PY="${VT_PYTHON:-/venv/bin/python}"
if [ ! -d "$HERE/.deps/icontract" ]; then
  PIP_NO_INDEX=1 "$PY" -m pip install --no-index --find-links /opt/veriftools/wheels \
     --target "$HERE/.deps" icontract >/dev/null 2>&1 || echo "icontract not installed; using shim"
fi
mkdir -p "$HERE/evidence"
exit 0

#!/bin/bash
# tools/eval_batch.sh <worktree-prefix> <seed-prefix> C01 C02 ...   (both changes of each)
wp="$1"; sp="$2"; shift 2
for p in "$@"; do for i in 1 2; do
  [ -f "$wp$p/SEED/$i/patch.diff" ] || { echo "$sp-$p-$i missing"; continue; }
  python3 "$(dirname "$0")/seed_eval.py" "$wp$p/SEED/$i" $p $sp-$p-$i --keep | python3 -c "
import json,sys; r=json.load(sys.stdin); print(r['seed'], 'confirmed' if r['confirmed'] else 'NOT-CONFIRMED(%s,%s,%s,%s)'%(r['demo_unchanged'],r.get('patch_applies'),r['tests'][:10],r['demo_changed']), {k:(v['verdict'],v['mechanisms'][:1]) for k,v in r['checks'].items()})"
done; done

#!/usr/bin/env python3
"""tools/record_widened.py <src-dir> <Cnn> <seed-id> <props,comma> <history text>
Re-evaluates a seeded change that was first missed (tools/seed_eval.py --keep)
against the given checks and records the history in its meta.json."""
import json
import os
import subprocess
import sys

here = os.path.dirname(os.path.abspath(__file__))
src, prop, sid, props, hist = sys.argv[1:6]
r = subprocess.run([sys.executable, os.path.join(here, 'seed_eval.py'), src,
                    prop, sid, '--keep', '--props', props],
                   stdout=subprocess.PIPE, text=True)
res = json.loads(r.stdout[r.stdout.index('{'):])
mp = os.path.join(here, '..', 'seeded', sid, 'meta.json')
m = json.load(open(mp))
caught = [p for p in props.split(',') if m['checks'][p]['verdict'] == 'caught']
m['breaks_properties'] = caught or [prop]
m['history'] = hist
with open(mp, 'w') as f:
    json.dump(m, f, indent=1)
    f.write('\n')
print(sid, res['confirmed'], {p: m['checks'][p]['verdict'] for p in m['checks']})

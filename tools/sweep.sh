#!/bin/bash
# tools/sweep.sh <tier> <seed> [<seed> ...]   -- run every check, leave the
# committed evidence alone (results go to $VT_EVIDENCE_DIR under /dev/shm)
HERE="$(cd "$(dirname "${BASH_SOURCE[0]}")/.." && pwd)"
tier="$1"; shift
out="${SWEEP_OUT:-/dev/shm/vt_sweep_$$}"
mkdir -p "$out"
rc_all=0
for seed in "$@"; do
  for i in $(seq -w 1 20); do
    p="C$i"
    start=$(date +%s)
    VERIF_SEED=$seed VT_EVIDENCE_DIR="$out/ev_$seed" VT_REPLAY_DIR="$out/rp_$seed" \
      "$HERE/vcheck" $p $tier > "$out/$p.$tier.$seed.log" 2>&1
    rc=$?
    echo "$p $tier seed=$seed rc=$rc $(( $(date +%s) - start ))s $(tail -1 "$out/$p.$tier.$seed.log" | cut -c1-150)"
    [ $rc -ne 0 ] && rc_all=1
  done
done
echo "logs in $out"
exit $rc_all

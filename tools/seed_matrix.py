#!/usr/bin/env python3
"""Print the catch matrix of the seeded changes (seeded/*/meta.json)."""
import glob, json, os, re
HERE = os.path.dirname(os.path.dirname(os.path.abspath(__file__)))
rows = []
for f in sorted(glob.glob(os.path.join(HERE, 'seeded', '*', 'meta.json'))):
    m = json.load(open(f))
    notes = m.get('needs_to_manifest', '')
    first = ''
    for ln in notes.splitlines():
        ln = ln.strip(' #*-')
        if len(ln) > 25 and not ln.lower().startswith(('notes', 'seed', 'change ')):
            first = ln
            break
    first = re.sub(r'\s+', ' ', first)[:150]
    checks = '; '.join('%s %s%s' % (p, c['verdict'], (' (' + c['mechanisms'][0] + ')') if c['mechanisms'] else '')
                       for p, c in sorted(m['checks'].items()))
    rows.append('| %s | %s | %s | %s |' % (m['id'], m['breaks_property'], first.replace('|', '/'), checks.replace('|', '/')))
print('| seeded change | property | what it is | result of the quick check(s) |')
print('|---|---|---|---|')
print('\n'.join(rows))

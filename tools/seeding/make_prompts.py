#!/usr/bin/env python3
"""tools/seeding/make_prompts.py <round-number> <method-file>
Writes /tmp/agent<round>_prompt_Cnn.txt for the twenty properties (the text a
seeding sub-agent gets: the property, the method of the round, nothing from
/verif) and prints the worktree commands."""
import json
import os
import sys

here = os.path.dirname(os.path.abspath(__file__))
rnd, method_file = sys.argv[1], sys.argv[2]
base = open(os.path.join(here, 'agent_base.txt')).read()
method = open(method_file).read().strip()
for line in open(os.path.join(here, '..', '..', 'properties.jsonl')):
    p = json.loads(line)
    txt = '[%s] %s\n\n%s\n\nQuantified over: %s' % (
        p['id'], p['title'], p['statement'], p['quantifier']['text'])
    s = base.replace('PROPERTY_TEXT', txt).replace('METHOD_TEXT', method) \
        .replace('WORKTREE', '/tmp/w%s_%s' % (rnd, p['id']))
    with open('/tmp/agent%s_prompt_%s.txt' % (rnd, p['id']), 'w') as f:
        f.write(s)
print('for i in $(seq -w 1 20); do git -C /repo worktree add -q --detach '
      '/tmp/w%s_C$i HEAD; done' % rnd)

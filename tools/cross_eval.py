#!/usr/bin/env python3
"""tools/cross_eval.py <seed-id> [<seed-id> ...]: run the quick tier of ALL
twenty properties against a seeded change (scratch copy of /repo under
/dev/shm) and print which of them report it."""
import json
import os
import shutil
import subprocess
import sys
import tempfile

VERIF = os.path.dirname(os.path.dirname(os.path.abspath(__file__)))


def main():
    for sid in sys.argv[1:]:
        d = tempfile.mkdtemp(prefix='vt_cross_', dir='/dev/shm')
        try:
            dst = os.path.join(d, 'repo')
            shutil.copytree('/repo', dst, ignore=shutil.ignore_patterns(
                '.git', '__pycache__', '*.pyc'))
            r = subprocess.run(['patch', '-p1', '-s', '-i', os.path.join(
                VERIF, 'seeded', sid, 'patch.diff')], cwd=dst)
            if r.returncode:
                print(sid, 'PATCH-STALE')
                continue
            env = dict(os.environ, VT_REPO=dst,
                       VT_EVIDENCE_DIR=os.path.join(d, 'ev'),
                       VT_REPLAY_DIR=os.path.join(d, 'rp'))
            got = {}
            for i in range(1, 21):
                p = 'C%02d' % i
                c = subprocess.run([os.path.join(VERIF, 'vcheck'), p, 'quick'],
                                   env=env, stdout=subprocess.PIPE,
                                   stderr=subprocess.STDOUT, text=True)
                if c.returncode != 0:
                    mech = [ln.strip()[11:] for ln in c.stdout.splitlines()
                            if ln.strip().startswith('mechanism:')]
                    got[p] = (c.returncode, mech[:1])
            print(sid, json.dumps(got))
            sys.stdout.flush()
        finally:
            shutil.rmtree(d, ignore_errors=True)


if __name__ == '__main__':
    main()

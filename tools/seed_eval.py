#!/usr/bin/env python3
"""Confirm a seeded change (from a sub-agent) and run the checks against it.

  tools/seed_eval.py <dir with patch.diff demo.py notes.md> <Cnn> <seed-id>
        [--tier quick] [--keep] [--props C04,C13]

Steps (all in a scratch copy of /repo under /dev/shm, removed afterwards):
  1. demo on the unchanged copy must exit 0
  2. patch applies; the pinned test suite passes; demo exits 1
  3. ./vcheck <Cnn> <tier> with VT_REPO=<copy> -> caught / MISSED
With --keep the artefacts are stored as /verif/seeded/<seed-id>/.
"""
import argparse
import json
import os
import shutil
import subprocess
import sys
import tempfile

VERIF = os.path.dirname(os.path.dirname(os.path.abspath(__file__)))
REPO = '/repo'


def sh(cmd, **kw):
    return subprocess.run(cmd, stdout=subprocess.PIPE, stderr=subprocess.STDOUT,
                          text=True, **kw)


def main():
    ap = argparse.ArgumentParser()
    ap.add_argument('src')
    ap.add_argument('prop')
    ap.add_argument('seedid')
    ap.add_argument('--tier', default='quick')
    ap.add_argument('--keep', action='store_true')
    ap.add_argument('--props', default='')
    ap.add_argument('--worktree', default='')
    args = ap.parse_args()
    base = '/dev/shm' if os.path.isdir('/dev/shm') else tempfile.gettempdir()
    d = tempfile.mkdtemp(prefix='vt_seed_', dir=base)
    res = {'seed': args.seedid, 'property': args.prop}
    try:
        dst = os.path.join(d, 'repo')
        shutil.copytree(REPO, dst, ignore=shutil.ignore_patterns(
            '.git', '__pycache__', '*.pyc', '.benchmarks', '*.egg-info'))
        demo_src = open(os.path.join(args.src, 'demo.py')).read()
        wt = args.worktree or os.path.abspath(os.path.join(args.src, '..', '..'))
        demo_src = demo_src.replace(wt, dst)
        os.makedirs(os.path.join(dst, 'SEED', '1'), exist_ok=True)
        demo = os.path.join(dst, 'SEED', '1', 'demo.py')
        with open(demo, 'w') as f:
            f.write(demo_src)
        env = dict(os.environ, PYTHONPATH=dst, PYTHONDONTWRITEBYTECODE='1')
        env.pop('TREETOOLS_VERIF', None)

        def run_demo():
            try:
                r = sh(['/venv/bin/python', demo], cwd=dst, env=env, timeout=600)
                return r.returncode, r.stdout[-400:]
            except subprocess.TimeoutExpired:
                return 'timeout', ''
        rc0, out0 = run_demo()
        res['demo_unchanged'] = rc0
        r = sh(['patch', '-p1', '-i',
                os.path.abspath(os.path.join(args.src, 'patch.diff'))], cwd=dst)
        res['patch_applies'] = r.returncode == 0
        if r.returncode != 0:
            res['patch_output'] = r.stdout[-400:]
        t = sh(['/venv/bin/python', '-m', 'pytest', '-q', '-p',
                'no:cacheprovider', '--timeout=900'], cwd=dst,
               env=dict(os.environ, PYTHONDONTWRITEBYTECODE='1'))
        res['tests'] = t.stdout.strip().splitlines()[-1] if t.stdout.strip() \
            else ''
        res['tests_pass'] = t.returncode == 0
        rc1, out1 = run_demo()
        res['demo_changed'] = rc1
        res['demo_output_changed'] = out1[-300:]
        props = [p for p in args.props.split(',') if p] or [args.prop]
        res['checks'] = {}
        for p in props:
            cenv = dict(os.environ, VT_REPO=dst,
                        VT_EVIDENCE_DIR=os.path.join(d, 'evidence'),
                        VT_REPLAY_DIR=os.path.join(d, 'replays'))
            c = sh([os.path.join(VERIF, 'vcheck'), p, args.tier], env=cenv)
            mech = [ln.strip()[11:] for ln in c.stdout.splitlines()
                    if ln.strip().startswith('mechanism:')]
            res['checks'][p] = {'rc': c.returncode,
                                'verdict': {0: 'MISSED', 1: 'caught',
                                            2: 'INCONCLUSIVE'}.get(
                                                c.returncode, '?'),
                                'mechanisms': mech[:3]}
        res['confirmed'] = (rc0 == 0 and res['patch_applies']
                            and res['tests_pass'] and rc1 == 1)
        if args.keep and res['confirmed']:
            out = os.path.join(VERIF, 'seeded', args.seedid)
            os.makedirs(out, exist_ok=True)
            shutil.copy(os.path.join(args.src, 'patch.diff'), out)
            with open(os.path.join(out, 'demo.py'), 'w') as f:
                f.write(open(os.path.join(args.src, 'demo.py')).read()
                        .replace(wt, '/repo'))
            notes = ''
            if os.path.exists(os.path.join(args.src, 'notes.md')):
                notes = open(os.path.join(args.src, 'notes.md')).read()
            meta = {'id': args.seedid, 'breaks_property': args.prop,
                    'origin': 'independent sub-agent given only the property '
                              'text and a scratch worktree',
                    'needs_to_manifest': notes,
                    'confirmed': {
                        'demo_on_unchanged_tree': 'exit %s' % rc0,
                        'pinned_tests_with_change': res['tests'],
                        'demo_with_change': 'exit %s' % rc1},
                    'what_was_run': 'tools/seed_eval.py: scratch copy of /repo, '
                                    'patch -p1, pytest, demo.py, then '
                                    'VT_REPO=<copy> ./vcheck <prop> %s'
                                    % args.tier,
                    'checks': res['checks']}
            with open(os.path.join(out, 'meta.json'), 'w') as f:
                json.dump(meta, f, indent=1)
                f.write('\n')
    finally:
        shutil.rmtree(d, ignore_errors=True)
    print(json.dumps(res, indent=1))
    return 0


if __name__ == '__main__':
    sys.exit(main())

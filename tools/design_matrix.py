#!/usr/bin/env python3
"""Regenerate the seeded-change parts of DESIGN.md from seeded/*/meta.json:
the list of initially missed changes (between <!-- SEED-LESSONS-BEGIN/END -->)
and the catch matrix (between <!-- SEED-MATRIX-BEGIN/END -->), plus
seeded/MATRIX.md.  Prints the counts to put into the prose."""
import glob
import json
import os
import re
import subprocess

HERE = os.path.dirname(os.path.dirname(os.path.abspath(__file__)))


def main():
    rows, hist = [], []
    per_round = {}
    for f in sorted(glob.glob(os.path.join(HERE, 'seeded', '*', 'meta.json'))):
        m = json.load(open(f))
        notes = m.get('needs_to_manifest', '')
        first = ''
        for ln in notes.splitlines():
            ln = ln.strip(' #*-')
            if len(ln) > 25 and not ln.lower().startswith(
                    ('notes', 'seed', 'change ', 'breaks')):
                first = ln
                break
        first = re.sub(r'\s+', ' ', first)
        first = re.sub(r'^(Change|What changed|What|What it is)\s*:\s*', '',
                       first)[:110]
        caught = [(p, c) for p, c in sorted(m['checks'].items())
                  if c['verdict'] == 'caught']
        if caught:
            verdict = 'caught by ' + ', '.join(p for p, _ in caught)
            mech = (caught[0][1].get('mechanisms') or ['-'])[0]
        else:
            verdict, mech = 'MISSED', '-'
        h = 'history' in m
        u = 'unreported' in m
        rnd = m['id'].split('-')[0]
        per_round.setdefault(rnd, [0, 0, 0])
        per_round[rnd][2 if u else 1 if h else 0] += 1
        if h:
            hist.append('   * **%s** — %s' % (m['id'], m['history']))
        if u:
            hist.append('   * **%s** — %s' % (m['id'], m['unreported']))
            verdict = 'not reported'
        rows.append('| %s | %s | %s | %s | %s |' % (
            m['id'], first.replace('|', '/'), verdict, mech.replace('|', '/'),
            'no (see above)' if u else 'after widening' if h else 'at once'))
    matrix = ('| seeded change | what it is (first line of the author\'s '
              'notes) | quick check(s) | first mechanism reported | caught |\n'
              '|---|---|---|---|---|\n' + '\n'.join(rows) + '\n')
    total = sum(sum(v) for v in per_round.values())
    once = sum(v[0] for v in per_round.values())
    later = sum(v[1] for v in per_round.values())
    matrix += '\n   Summary: %d seeded changes, %d reported at once, %d only ' \
        'after the workloads were widened, %d not reported (at once / after ' \
        'widening / not reported per round: %s).\n' % (
            total, once, later, total - once - later, '; '.join(
                '%s %d/%d/%d' % (r, per_round[r][0], per_round[r][1],
                                 per_round[r][2])
                for r in sorted(per_round)))
    p = os.path.join(HERE, 'DESIGN.md')
    s = open(p).read()
    for tag, body in (('SEED-LESSONS', '\n'.join(hist) + '\n'),
                      ('SEED-MATRIX', matrix)):
        b, e = '<!-- %s-BEGIN -->' % tag, '<!-- %s-END -->' % tag
        if b in s and e in s:
            s = s[:s.index(b) + len(b)] + '\n' + body + s[s.index(e):]
        else:
            print('marker %s missing in DESIGN.md' % tag)
    open(p, 'w').write(s)
    with open(os.path.join(HERE, 'seeded', 'MATRIX.md'), 'w') as f:
        f.write(subprocess.check_output(
            ['python3', os.path.join(HERE, 'tools', 'seed_matrix.py')],
            text=True))
    print('total %d, at once %d, after widening %d, not reported %d'
          % (total, once, later, total - once - later))
    for r in sorted(per_round):
        print('  %s: %d at once, %d after widening, %d not reported'
              % (r, per_round[r][0], per_round[r][1], per_round[r][2]))


if __name__ == '__main__':
    main()

#!/bin/bash
# tools/eval_round4.sh A01 A02 ...  (worktrees /tmp/w4_<A..>, notes.md first line "breaks: Cnn[, Cmm]")
for a in "$@"; do for i in 1 2; do
  d=/tmp/w4_$a/SEED/$i
  [ -f "$d/patch.diff" ] || { echo "seed4-$a-$i missing"; continue; }
  props=$(grep -i -m1 -o "breaks:.*" $d/notes.md | grep -o "C[0-9][0-9]" | sort -u | tr '\n' ',' | sed 's/,$//')
  [ -z "$props" ] && props=C01
  first=$(echo $props | cut -d, -f1)
  python3 "$(dirname "$0")/seed_eval.py" "$d" $first seed4-$a-$i --keep --props $props --worktree /tmp/w4_$a | python3 -c "
import json,sys; r=json.load(sys.stdin); print(r['seed'], 'confirmed' if r['confirmed'] else 'NOT-CONFIRMED(%s,%s,%s,%s)'%(r['demo_unchanged'],r.get('patch_applies'),r['tests'][:10],r['demo_changed']), {k:(v['verdict'],v['mechanisms'][:1]) for k,v in r['checks'].items()})"
done; done

#!/bin/bash
# tools/eval_multi.sh <worktree-prefix> <seed-prefix> <n-per-agent> A01 A02 ...
# whole-suite agents: notes.md names the broken properties ("breaks: Cnn[, Cmm]")
wp="$1"; sp="$2"; n="$3"; shift 3
for a in "$@"; do for i in $(seq 1 $n); do
  d=$wp$a/SEED/$i
  [ -f "$d/patch.diff" ] || { echo "$sp-$a-$i missing"; continue; }
  props=$(grep -i -m1 -o "breaks:.*" $d/notes.md | grep -o "C[0-9][0-9]" | awk '!s[$0]++' | tr '\n' ',' | sed 's/,$//')
  [ -z "$props" ] && props=C01
  first=$(echo $props | cut -d, -f1)
  python3 "$(dirname "$0")/seed_eval.py" "$d" $first $sp-$a-$i --keep --props $props --worktree $wp$a | python3 -c "
import json,sys; r=json.load(sys.stdin); print(r['seed'], 'confirmed' if r['confirmed'] else 'NOT-CONFIRMED(%s,%s,%s,%s)'%(r['demo_unchanged'],r.get('patch_applies'),r['tests'][:10],r['demo_changed']), {k:(v['verdict'],v['mechanisms'][:1]) for k,v in r['checks'].items()})"
done; done

"""C02 -- writers encode every tree faithfully in each output format
(DESIGN 5/C02).  H3: the text every treeoutput.<fmt>_begin / <fmt> / <fmt>_end
call emits is recorded and decoded by the independent decoders of
vt/codec.py; contracts on the writer functions observe exceptions."""
import itertools
import re

from . import codec, common, contracts, gen, model, probe

PROPERTY = 'C02'
LEVEL = 'exploration'
OPTIONS = ['boyd_split_marking', 'boyd_split_numbering', 'brackets_emptyroot',
           'brackets_skipdisco', 'export_four', 'gf', 'gf_separator',
           'gf_terminals', 'mark_heads_marking', 'terminals_one',
           'terminals_pos']
FORMATS = ['export', 'brackets', 'discobrackets', 'tigerxml', 'terminals']
RULE = ('trees built through the Tree API (never through a reader), 1..20 '
        'tokens, gap degree 0..n/2, unary chains, words from ASCII / '
        'XML-special / non-ASCII / parenthesis / tab-stop-length (7, 8, 15, '
        '16, 17, 24+) pools, fields lemma / morph / edge present or None '
        '(three reader styles), head and split attributes set; every subset '
        'of the 11 documented output options on small trees and random '
        'subsets on random trees, all five formats, framed by _begin/_end; '
        'non-trivial = tree with >= 3 tokens written with at least one '
        'option or containing a special character, a None field or a gap; '
        'distinct = distinct (tree, format, option set)')
ASSUMPTIONS = ['decoders of vt/codec.py (export: Brants 1997; PTB brackets; '
               'discobrackets per the reader docstring; TIGER-XML via '
               'xml.etree) are the reference',
               'decoration options are judged on the formats that label nodes '
               'through get_label (export, brackets, discobrackets); '
               'TIGER-XML and terminals must ignore them',
               'boyd_split_numbering without boyd_split_marking: the number '
               'without an asterisk (the options are independent, as the '
               'option table of the writers says)',
               'excluded by construction: words with whitespace, #ddd words, '
               'parentheses in constituent labels, a parenthesis flanked by '
               'dashes inside a word (the name mapping is ambiguous there)']
WATCHDOG = {'quick': 900, 'thorough': 5400}
LONG_SENTENCES = 3      # floor for the stratum the runner adds (gen.maybe_long)
MIN = {'quick': {'distinct': 4000,
                 'hooks': dict([('treeoutput.' + f, 1500) for f in FORMATS]),
                 'strata': {'None field': 1500, 'word with parenthesis': 300,
                            'XML-special word': 300, 'tab-stop length': 300,
                            'brackets refused (discontinuous)': 200,
                            'brackets skipped (discontinuous)': 100,
                            'all option subsets (small tree)': 2048,
                            'root label other than VROOT': 1000,
                            'inner node labelled VROOT': 300}},
       'thorough': {'distinct': 150000,
                    'hooks': dict([('treeoutput.' + f, 50000)
                                   for f in FORMATS])}}


class Cur(object):
    ctx = None
    case = None
    exc = None


PRIOR = ['export', 'tigerxml', 'terminals', 'numbering', 'extract', 'analysis']
PRIOR_PARAMS = [{}, {'gf': True}, {'export_four': True},
                {'gf': True, 'gf_separator': '='}, {'terminals_pos': True}]


def _fail(mech, detail):
    Cur.ctx.fail('C02:' + mech, Cur.case, detail)


def post_writer(old, result, exc, args, kw):
    Cur.exc = exc


def install(R):
    for f in FORMATS:
        contracts.attach(R.treeoutput, f, None, post_writer)
        contracts.attach(R.treeoutput, f + '_begin', None, None)
        contracts.attach(R.treeoutput, f + '_end', None, None)


# ---- expectations ---------------------------------------------------------------------

def labels_ok(n, params):
    """Acceptable decorated labels of model node n under params."""
    lab = n.label
    sep = str(params.get('gf_separator', '-'))
    edge = n.edge if n.edge is not None else '--'
    if 'gf' in params and not edge.startswith('-') and \
            (n.children or 'gf_terminals' in params):
        lab += sep + edge
    if 'mark_heads_marking' in params and n.head:
        lab += "'"
    out = [lab]
    if n.attrs.get('split'):
        num = str(n.attrs.get('block_number'))
        mark = '*' if 'boyd_split_marking' in params else ''
        if 'boyd_split_numbering' in params:
            out = [lab + mark + num]
        else:
            out = [lab + mark]
    return out


def match(dec, m, fmt, params, path='root'):
    """Compare a decoded spec node with the model node; return first
    difference or None."""
    decor = fmt in ('export', 'brackets', 'discobrackets')
    paren = fmt in ('brackets', 'discobrackets')
    is_root = m.parent is None
    if ('c' in dec) != bool(m.children):
        return '%s: token vs constituent' % path
    want = labels_ok(m, params) if decor else [m.label]
    if paren and not m.children:
        want = [codec.replace_parens(w) for w in want]
    if not m.children:
        word = codec.replace_parens(m.word) if paren else m.word
        if dec['w'] != word:
            return '%s: word %r, expected %r' % (path, dec['w'], word)
        if dec['p'] not in want:
            return '%s: POS/label %r, expected %r' % (path, dec['p'], want[0])
        if dec['n'] != m.num:
            return '%s: token number %r, expected %r' % (path, dec['n'], m.num)
        if fmt in ('export', 'tigerxml'):
            morph = m.morph if m.morph is not None else '--'
            if dec['m'] != morph:
                return '%s: morph %r, expected %r' % (path, dec['m'], morph)
            edge = m.edge if m.edge is not None else '--'
            if dec['e'] != edge:
                return '%s: edge %r, expected %r' % (path, dec['e'], edge)
        if fmt == 'tigerxml' or (fmt == 'export' and 'export_four' in params):
            lemma = m.lemma if m.lemma is not None else '--'
            if dec['lm'] != lemma:
                return '%s: lemma %r, expected %r' % (path, dec['lm'], lemma)
        return None
    if is_root and fmt == 'export':
        pass        # export cannot carry the root label
    elif is_root and paren and 'brackets_emptyroot' in params:
        if dec['l'] != 'VROOT' or not dec.get('_emptyroot', True):
            return 'root label written although brackets_emptyroot is set'
    elif dec['l'] not in want:
        return '%s: label %r, expected %r' % (path, dec['l'], want[0])
    if fmt in ('export', 'tigerxml') and not is_root:
        edge = m.edge if m.edge is not None else '--'
        if dec['e'] != edge:
            return '%s: edge %r, expected %r' % (path, dec['e'], edge)
    dk = sorted(dec['c'], key=lambda x: min(t['n'] for t in codec._walk(x)
                                            if 'c' not in t))
    mk = m.kids()
    if len(dk) != len(mk):
        return '%s: %d children, expected %d' % (path, len(dk), len(mk))
    for a, b in zip(dk, mk):
        r = match(a, b, fmt, params, path + '/' + str(b.label))
        if r:
            return r
    return None


def check_export_text(text, m, params, sid):
    """Format obligations on the raw export text."""
    lines = text.split('\n')
    if lines[-1] != '':
        return 'no final newline'
    lines = lines[:-1]
    if lines[0] != '#BOS %d' % sid or lines[-1] != '#EOS %d' % sid:
        return 'framing %r ... %r' % (lines[0], lines[-1])
    nf = 6 if 'export_four' in params else 5
    ntok = len(m.toks())
    seen_cons = False
    prev_num = 499
    for i, ln in enumerate(lines[1:-1]):
        f = re.split(r'\t+', ln)
        if len(f) != nf or any(x == '' or ' ' in x for x in f):
            return 'line %r does not split into %d tab-separated fields' \
                % (ln, nf)
        if i < ntok:
            if re.match(r'^#\d{3}$', f[0]):
                return 'constituent line among the first %d (token) lines' % ntok
        else:
            mm = re.match(r'^#(\d{3})$', f[0])
            if not mm:
                return 'token line after the constituents: %r' % ln
            if int(mm.group(1)) != prev_num + 1:
                return 'constituent numbers not contiguous from 500: %r after %d' \
                    % (f[0], prev_num)
            prev_num += 1
            if int(f[-1]) != 0 and int(f[-1]) <= int(mm.group(1)):
                return 'constituent %s has parent %s (not numbered above)' \
                    % (f[0], f[-1])
    return None


def classify_none(m):
    return any(t.lemma is None or t.morph is None or t.edge is None
               for t in m.toks()) or any(n.edge is None for n in m.nodes())


def run_writer(ctx, case):
    """case: spec, fmt, params, style"""
    R = ctx.R
    Cur.ctx, Cur.case, Cur.exc = ctx, case, None
    fmt, params = case['fmt'], dict(case['params'])
    spec = case['spec']
    unispace = any(c in (t.get('w') or '') for t in gen.tokens_of(spec['root'])
                   for c in '\u00a0\u3000\u2009')
    if unispace and fmt == 'export':
        # the export format cannot carry these words (its reader separates
        # fields on any Unicode white space): not judged
        return
    if unispace:
        ctx.stratum('word with non-ASCII space character')
    if fmt == 'export' and sum(1 for n in gen.walk(spec['root'])
                               if 'c' in n) > 499:
        # the export format numbers constituents 500..999: a sentence with
        # more than 499 of them cannot be written in it
        ctx.stratum('more constituents than the export format can number '
                    '(unjudged)')
        return
    m = model.from_spec(spec['root'])
    if case.get('style') == 'brackets' and m.children:
        m.edge = None
    live = model.build_live_tree(spec, R.trees, ctx.rng('shuffle', spec['sid']),
                                 case.get('style', 'export'))
    if case.get('style') == 'brackets':
        live.data['edge'] = None
    stream = probe.RecordingStream()
    TO = R.treeoutput
    exc = None
    # in a quarter of the cases something has looked at the tree before: it was
    # written to the same stream in another format, numbered, analysed, or a
    # grammar was extracted from it (none of which is documented to change it)
    import json
    import zlib
    h = zlib.crc32(json.dumps(case, sort_keys=True, default=str)
                   .encode('utf-8'))
    if h % 4 == 0:
        prior = PRIOR[(h // 4) % len(PRIOR)]
        try:
            with common.captured():
                if prior in ('export', 'tigerxml', 'terminals'):
                    getattr(TO, prior)(live, stream, **PRIOR_PARAMS[
                        (h // 64) % len(PRIOR_PARAMS)])
                elif prior == 'numbering':
                    TO.compute_export_numbering(live)
                elif prior == 'extract':
                    R.grammar.extract(live, {}, {})
                else:
                    R.treeanalysis.gap_degree(live)
                    for cls in R.treeanalysis.TASKS:
                        cls().run(live)
        except Exception:
            pass    # judged where that function is the subject
        stream.mark()
        ctx.stratum('tree was looked at before it is written (%s)' % prior)
    try:
        with common.captured() as (out, err):
            getattr(TO, fmt + '_begin')(stream, **params)
            head = stream.mark()
            getattr(TO, fmt)(live, stream, **params)
            body = stream.mark()
            getattr(TO, fmt + '_end')(stream, **params)
            tail = stream.mark()
    except Exception as e:
        exc = e
        body = stream.mark()
    disc = model.gapdeg(m) > 0
    none = classify_none(m)
    # ---- exceptions --------------------------------------------------------------------
    if fmt == 'brackets' and disc:
        if 'brackets_skipdisco' in params:
            if exc is not None or body != '':
                _fail('brackets-skipdisco', 'discontinuous tree: wrote %r, '
                      'raised %r' % (body[:60], exc))
            else:
                ctx.stratum('brackets skipped (discontinuous)')
        else:
            if not isinstance(exc, ValueError):
                _fail('brackets-writes-discontinuous-tree', 'gap degree %d, '
                      'outcome %r, text %r' % (model.gapdeg(m), exc, body[:80]))
            elif body != '':
                _fail('brackets-partial-output-before-refusal',
                      'wrote %r and then refused' % body[:60])
            else:
                ctx.stratum('brackets refused (discontinuous)')
        return finish(ctx, case, m, disc, none)
    if exc is not None:
        mech = '%s-raises' % fmt
        if none:
            mech = '%s-raises-on-None-field' % fmt
        _fail(mech, '%r | params %r | tree %s' % (exc, params,
                                                  model.show(m, 'w')))
        return
    text = head + body + tail

    def again():
        # the sentence is still the sentence after it was written: the same
        # call on the same tree writes the same text (a writer that keeps
        # quoted or mapped values in the tree fails this on the second call)
        if fmt == 'discobrackets':
            # documented in the writer: it substitutes the terminals for
            # numbers in the tree it is given (not judged)
            return False
        second = probe.RecordingStream()
        try:
            with common.captured():
                getattr(TO, fmt)(live, second, **params)
        except Exception as e:
            _fail('%s-second-write-differs' % fmt, 'second call raised %r' % e)
            return True
        ctx.hook('second write of the same tree')
        body2 = second.mark()
        if body2 != body:
            _fail('%s-second-write-differs' % fmt, 'first %r | second %r'
                  % (body[:200], body2[:200]))
            return True
        return False
    # ---- decode and compare ----------------------------------------------------------------
    try:
        if fmt == 'export':
            dec = codec.export_decode(text)
        elif fmt == 'brackets':
            dec = codec.brackets_decode(text, first_sid=spec['sid'])
            if body.count('\n') != 1 or not body.endswith('\n'):
                _fail('brackets-not-one-line', 'tree text %r' % body[:80])
                return
        elif fmt == 'discobrackets':
            dec = codec.brackets_decode(text, first_sid=spec['sid'], disco=True)
        elif fmt == 'tigerxml':
            dec = codec.tigerxml_decode(text.encode('utf-8'),
                                        root_label=m.label)
        else:
            dec = None
    except Exception as e:
        mech = '%s-output-does-not-decode' % fmt
        if fmt in ('brackets', 'discobrackets') and \
                any(c in t.word for t in m.toks() for c in '()'):
            mech = '%s-parenthesis-in-token-not-mapped' % fmt
        _fail(mech, '%r | text %r' % (e, text[:300]))
        return
    if fmt == 'terminals':
        one = 'terminals_one' in params
        pos = 'terminals_pos' in params
        try:
            sents = codec.terminals_decode(text, one=one, pos=pos)
        except Exception as e:
            _fail('terminals-output-does-not-decode', '%r | %r' % (e, text[:200]))
            return
        want = [(t.word, t.label if pos else None) for t in m.toks()]
        if len(sents) != 1 or [tuple(x) for x in sents[0]] != want:
            _fail('terminals-not-the-sentence', 'wrote %r, sentence is %r '
                  '(params %r)' % (text[:200], want[:8], params))
            return
        if again():
            return
        return finish(ctx, case, m, disc, none)
    if len(dec) != 1:
        _fail('%s-tree-count' % fmt, '%d trees decoded from one writer call'
              % len(dec))
        return
    d = dec[0]
    if fmt in ('export', 'tigerxml') and d['sid'] != spec['sid']:
        _fail('%s-sentence-id' % fmt, 'decoded id %r, tree id %r'
              % (d['sid'], spec['sid']))
        return
    if fmt in ('brackets', 'discobrackets') and 'brackets_emptyroot' in params:
        d['root']['_emptyroot'] = re.match(r'^\(\(', body) is not None
    diff = match(d['root'], m, fmt, params)
    if diff:
        mech = '%s-decoded-tree-differs' % fmt
        if 'label' in diff or 'POS' in diff:
            mech = '%s-label-decoration' % fmt
        if 'word' in diff and any(c in t.word for t in m.toks()
                                  for c in '()[]{}'):
            mech = '%s-parenthesis-in-token-not-mapped' % fmt
        _fail(mech, '%s | params %r | text %r' % (diff, params, text[:400]))
        return
    if fmt == 'export':
        bad = check_export_text(text, m, params, spec['sid'])
        if bad:
            _fail('export-format-obligation', bad + ' | ' + repr(text[:300]))
            return
    if fmt == 'discobrackets':
        if body.count('\n') != 1 or body.count('\t') != 1:
            _fail('discobrackets-layout', 'text %r' % body[:100])
            return
    if again():
        return
    finish(ctx, case, m, disc, none)


def finish(ctx, case, m, disc, none):
    words = [t.word for t in m.toks()]
    special = False
    if none:
        ctx.stratum('None field')
        special = True
    if any(c in w for w in words for c in '()[]{}'):
        ctx.stratum('word with parenthesis')
        special = True
    if any(c in w for w in words for c in '<>&"\''):
        ctx.stratum('XML-special word')
        special = True
    if any(len(w) in (7, 8, 15, 16, 17) or len(w) >= 24 for w in words):
        ctx.stratum('tab-stop length')
    if any(ord(c) > 127 for w in words for c in w):
        ctx.stratum('non-ASCII word')
        special = True
    if m.label != 'VROOT':
        ctx.stratum('root label other than VROOT')
    if any(n.label == 'VROOT' for n in m.nodes() if n.parent is not None):
        ctx.stratum('inner node labelled VROOT')
    ctx.stratum('format ' + case['fmt'])
    ctx.case([case['spec']['root'], case['fmt'], sorted(case['params'].items()),
              case.get('style')],
             nontrivial=len(words) >= 3 and (bool(case['params']) or special
                                             or disc))


# ---- workload -----------------------------------------------------------------------------

def params_from(subset, rng):
    p = {}
    for o in subset:
        if o == 'gf_separator':
            # incl. values as options_dict delivers them (ints, empty string)
            p[o] = rng.choice(['-', '#', '+', ':', '|', 0, 10, '', '0'])
        else:
            p[o] = True
    return p


def decorate_spec(rng, spec):
    """head flags and split attributes on every node (what the decoration
    options read)."""
    gen.assign_heads(rng, spec)
    for n in gen.walk(spec['root']):
        sp = 'c' in n and rng.random() < 0.3
        n['x'] = {'split': sp, 'block_number': rng.randint(1, 3)}
    return spec


def word_pool(rng):
    r = rng.random()
    if r < 0.3:
        return gen.WORDS_ASCII
    if r < 0.45:
        return gen.WORDS_ASCII + gen.WORDS_XML
    if r < 0.6:
        return gen.WORDS_ASCII + gen.WORDS_NONASCII + gen.WORDS_BEYOND_LATIN1
    if r < 0.75:
        return gen.WORDS_ASCII + gen.WORDS_PAREN
    if r < 0.82:
        return gen.WORDS_ASCII + gen.WORDS_TABSTOP
    if r < 0.9:
        # white space for Unicode, ordinary characters for the formats
        return gen.WORDS_ASCII + gen.WORDS_UNISPACE
    return gen.WORDS_ASCII + gen.WORDS_XML + gen.WORDS_NONASCII + \
        gen.WORDS_PAREN + gen.WORDS_TABSTOP + gen.PUNCT + gen.WORDS_HASH


def make_tree(rng, small=False):
    pools = gen.Pools(words=word_pool(rng),
                      pos=gen.POS + ['$(', '$,', '$.'],
                      cats=gen.CATS + (['R-SIMPX', 'NP-SBJ', 'PP-LOC-1', 'S=2',
                                        'A#B', 'X+Y']
                                       if rng.random() < 0.3 else []),
                      morphs=gen.MORPHS + ['abcdefgh', 'abcdefghijklmnop', 'x' * 9],
                      none_fields=rng.choice([0, 0, 0.3, 1.0]))
    n = rng.randint(1, 5) if small else \
        (rng.choice([1, 2, 3, 5, 8]) if rng.random() < 0.6
         else rng.randint(1, 20))
    n = n if small else gen.maybe_long(rng, n)
    spec = gen.tree(rng, n, pools, max_arity=rng.choice([2, 3, 5]),
                    p_unary=rng.choice([0, 0.15, 0.3]),
                    moves=rng.choice([0, 0, 0, 1, 2, 4]),
                    root_pieces=rng.choice([1, 1, 2, 3]),
                    sid=rng.choice([1, 7, 42, 1234, 0]))
    # no brackets in constituent labels, no '#ddd' words (excluded, see
    # ASSUMPTIONS); everything else must be written as it is
    gen.spice(rng, spec, ['cat-apostrophe', 'pos-apostrophe', 'cat-keyword',
                          'cat-punct-char', 'pos-punct-char', 'pos-decorated',
                          'cat-digit-first', 'cat-at-x', 'word-unicode',
                          'word-keyword', 'word-percent',
                          'word-typographic-punct', 'word-backslash',
                          'word-python-literal', 'morph-python-literal',
                          'pos-keyword'])
    r = rng.random()
    if r < 0.25:
        spec['root']['l'] = rng.choice(['TOP', 'ROOT', 'S', 'VROOT+S'])
    if r > 0.85:
        # a constituent labelled like the default root somewhere inside
        inner = [x for x in gen.walk(spec['root'])
                 if 'c' in x and x is not spec['root']]
        if inner:
            rng.choice(inner)['l'] = 'VROOT'
    decorate_spec(rng, spec)
    return spec


def shard(ctx):
    install(ctx.R)
    # ---- every subset of the 11 options x 5 formats on small trees -------------------
    k = 0
    reps = ctx.pick(1, 8)
    for r in range(len(OPTIONS) + 1):
        for subset in itertools.combinations(OPTIONS, r):
            k += 1
            if not ctx.mine(k):
                continue
            rng = ctx.rng('subset', k)
            for rep in range(reps):
                spec = make_tree(rng, small=True)
                for fmt in FORMATS:
                    run_writer(ctx, {'kind': 'w', 'spec': spec, 'fmt': fmt,
                                     'params': params_from(subset, rng),
                                     'style': rng.choice(['export', 'tiger',
                                                          'brackets'])})
            ctx.stratum('all option subsets (small tree)')
    # ---- random trees, random subsets ---------------------------------------------------
    for i in ctx.indices(ctx.pick(2500, 500000)):
        rng = ctx.rng('rand', i)
        spec = make_tree(rng)
        subset = [o for o in OPTIONS if rng.random() < 0.3]
        for fmt in FORMATS:
            case = {'kind': 'w', 'spec': spec, 'fmt': fmt,
                    'params': params_from(subset, rng),
                    'style': rng.choice(['export', 'tiger', 'brackets'])}
            run_writer(ctx, case)
        if i < 3:
            ctx.sample({'tree': model.show(model.from_spec(spec['root']), 'w'),
                        'options': subset})


def replay(ctx, case):
    install(ctx.R)
    run_writer(ctx, case)

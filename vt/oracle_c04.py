"""C04 -- structural transformations preserve the sentence and tree
well-formedness (DESIGN 5/C04).  One generic contract (OLD snapshot -> result
snapshot) on every structural transformation; the workload drives sequences of
transformations drawn from a prerequisite automaton built from the
docstrings."""
from collections import Counter

from . import common, contracts, gen, model, probe
from .oracle_c14 import ref_collapse

PROPERTY = 'C04'
LEVEL = 'exploration'
STRUCTURAL = ['root_attach', 'negra_mark_heads', 'mark_heads_by_rules',
              'boyd_split', 'raising', 'add_topnode', 'punctuation_verylow',
              'punctuation_symetrify', 'punctuation_root', 'binarize',
              'collapse_unary_chains', 'uncollapse_unary_chains']
RULE = ('trees built through the Tree API (1..25 tokens, shuffled child '
        'lists, gap degree to n/2, punctuation density 0..100 % incl. '
        'punctuation-only constituents and sentences, unary chains at the '
        'root, one-token sentences); sequences of up to 5 (quick) / 7 '
        '(thorough) transformations drawn from a prerequisite automaton '
        '(boyd_split after head marking, raising directly after boyd_split, '
        'binarize after head marking, token-moving steps invalidate head '
        'marks, uncollapse after collapse); parameters relc, bare_bin_labels, '
        'both head-rule presets; every single call is judged by the generic '
        'contract; non-trivial = sequence of >= 2 steps in which some step '
        'changes the tree; distinct = distinct (tree, sequence)')
ASSUMPTIONS = ['the prerequisite automaton in this file (next_steps) encodes '
               'the documented prerequisites; sequences outside it are not '
               'driven',
               'labels of generated trees contain no + and do not start '
               'with @']
WATCHDOG = {'quick': 600, 'thorough': 3600}
LONG_SENTENCES = 3      # floor for the stratum the runner adds (gen.maybe_long)
MIN = {'quick': {'distinct': 2500,
                 'hooks': dict([('transform.' + n, 300) for n in STRUCTURAL]),
                 'strata': {'sequence length>=4': 800,
                            'punctuation-only constituent': 300,
                            'one-token sentence': 50,
                            'parameter bare_bin_labels': 80,
                            'parameter relc': 300,
                            'parameter mark_heads_preset=negra': 400,
                            'parameter mark_heads_preset=ptb': 400}},
       'thorough': {'distinct': 100000,
                    'hooks': dict([('transform.' + n, 20000)
                                   for n in STRUCTURAL])}}
PUNCT = set(gen.PUNCT)
STEPS = 3000000


class Cur(object):
    ctx = None
    case = None
    step = None
    pre_split = None        # label multiset before the last boyd_split
    pre_collapse = None     # snapshot before the last collapse
    changed = False


def _fail(name, what, detail):
    Cur.ctx.fail('C04:%s-%s' % (name, what), Cur.case,
                 'step %s | %s' % (Cur.step, detail))


def words(m):
    return [t.word for t in m.toks()]


def poses(m):
    return [str(t.label).split('+')[-1] for t in m.toks()]


def make_post(name):
    def post(old, result, exc, args, kw):
        if old is None or old[0]:
            return
        before = old[1]
        if isinstance(exc, probe.StepBudgetExceeded):
            _fail(name, 'does-not-terminate', 'on ' + model.show(before, 'w'))
            return
        if isinstance(exc, ValueError) and name in ('boyd_split', 'binarize') \
                and any(n.head is None for n in before.nodes()):
            return      # documented prerequisite (head marking) not met
        if exc is not None:
            _fail(name, 'raises', '%r on %s' % (exc, model.show(before, 'w')))
            return
        if result is None:
            _fail(name, 'returns-none', '')
            return
        if result.parent is not None:
            _fail(name, 'returns-inner-node', 'returned node %r has a parent '
                  '| input %s' % (result.data.get('label'),
                                  model.show(before, 'w')))
            return
        if name not in ('add_topnode', 'uncollapse_unary_chains') and \
                result is not args[0]:
            _fail(name, 'returns-other-node', 'label %r'
                  % (result.data.get('label'),))
            return
        defects, after = model.snapshot(result)
        if defects:
            _fail(name, 'ill-formed', '; '.join(defects[:3]) + ' | input '
                  + model.show(before, 'w'))
            return
        if words(after) != words(before) or poses(after) != poses(before):
            _fail(name, 'token-sequence-changed', 'input %s | output %s'
                  % (model.show(before, 'w'), model.show(after, 'w')))
            return
        if name not in ('collapse_unary_chains', 'uncollapse_unary_chains') \
                and model.token_seq(after, 'wp') != model.token_seq(before, 'wp'):
            _fail(name, 'token-sequence-changed', 'POS changed')
            return
        lb, la = model.label_multiset(before), model.label_multiset(after)
        if name in ('root_attach', 'negra_mark_heads', 'mark_heads_by_rules',
                    'punctuation_verylow', 'punctuation_symetrify',
                    'punctuation_root'):
            if la != lb:
                _fail(name, 'constituents-lost-or-duplicated',
                      '%r -> %r' % (dict(lb - la), dict(la - lb)))
                return
        elif name == 'add_topnode':
            if la != lb + Counter({'TOP': 1}) or len(after.children) != 1 \
                    or after.children[0].ref is not args[0]:
                _fail(name, 'accounting', 'labels %r -> %r' % (dict(lb),
                                                               dict(la)))
                return
            if Cur.pre_split is not None:
                # a top node put on a split tree is there after raising too
                Cur.pre_split = Cur.pre_split + Counter({'TOP': 1})
        elif name == 'boyd_split':
            exp = Counter()
            for n in before.nodes():
                if n.children:
                    exp[n.label] += len(model.runs(n.nums()))
            if la != exp:
                _fail(name, 'accounting', 'one node per block expected %r, '
                      'got %r' % (dict(exp), dict(la)))
                return
            Cur.pre_split = lb
        elif name == 'raising':
            if Cur.pre_split is not None and la != Cur.pre_split:
                _fail(name, 'accounting', 'labels before splitting %r, after '
                      'raising %r' % (dict(Cur.pre_split), dict(la)))
                return
            Cur.pre_split = None
        elif name == 'binarize':
            if (lb - la) or any(not str(k).startswith('@')
                                for k in (la - lb)):
                _fail(name, 'accounting', 'lost %r, added %r'
                      % (dict(lb - la), dict(la - lb)))
                return
        elif name == 'collapse_unary_chains':
            exp = model.label_multiset(ref_collapse(before.copy()))
            # a chain down to a token turns into a token (not a constituent)
            if la != Counter(n.label for n in ref_collapse(before.copy()).nodes()
                             if n.children):
                _fail(name, 'accounting', 'labels %r' % (dict(la),))
                return
            Cur.pre_collapse = before
        elif name == 'uncollapse_unary_chains':
            if Cur.pre_collapse is not None:
                if model.canon(after, 'wp') != model.canon(Cur.pre_collapse,
                                                           'wp'):
                    _fail(name, 'not-inverse', 'restored %s, original %s'
                          % (model.show(after, ''),
                             model.show(Cur.pre_collapse, '')))
                    return
                Cur.pre_collapse = None
        if model.canon(after, 'p') != model.canon(before, 'p'):
            Cur.changed = True
    return post


def pre(args, kw):
    return model.snapshot(args[0])


def install(R):
    for n in STRUCTURAL:
        contracts.attach(R.transform, n, pre, make_post(n))


# ---- prerequisite automaton ----------------------------------------------------------

def next_steps(state):
    """Allowed next transformations in a state
    (heads, split, collapsed, just_split)."""
    heads, split, collapsed = state['heads'], state['split'], state['collapsed']
    if state['just_split']:
        return ['raising']
    if collapsed:
        return ['uncollapse_unary_chains']
    out = ['negra_mark_heads', 'mark_heads_by_rules', 'add_topnode',
           'collapse_unary_chains']
    if not state['topped']:
        out += ['root_attach', 'punctuation_verylow', 'punctuation_symetrify',
                'punctuation_root']
    else:
        out += ['punctuation_verylow', 'punctuation_symetrify',
                'punctuation_root']
    if heads:
        out += ['boyd_split', 'boyd_split', 'binarize', 'binarize']
    return out


def advance(state, step):
    s = dict(state)
    s['just_split'] = False
    if step in ('negra_mark_heads', 'mark_heads_by_rules'):
        s['heads'] = True
    elif step in ('root_attach', 'punctuation_verylow', 'punctuation_symetrify',
                  'punctuation_root'):
        s['heads'] = False
    elif step == 'boyd_split':
        s['just_split'] = True
    elif step == 'collapse_unary_chains':
        s['collapsed'] = True
        s['heads'] = False
    elif step == 'uncollapse_unary_chains':
        s['collapsed'] = False
    elif step == 'add_topnode':
        s['topped'] = True
        s['heads'] = False
    return s


def draw_sequence(rng, maxlen):
    state = {'heads': False, 'split': False, 'collapsed': False,
             'just_split': False, 'topped': False}
    seq = []
    n = rng.randint(1, maxlen)
    while len(seq) < n or state['just_split'] or state['collapsed']:
        step = rng.choice(next_steps(state))
        params = {}
        if step == 'mark_heads_by_rules':
            params = {'mark_heads_preset': rng.choice(['negra', 'ptb'])}
        elif step == 'punctuation_symetrify' and rng.random() < 0.4:
            params = {'relc': rng.choice(['PRELS', 'PRELSAT'])}
        elif step == 'binarize' and rng.random() < 0.4:
            params = {'bare_bin_labels': True}
        seq.append([step, params])
        state = advance(state, step)
        if len(seq) > maxlen + 2:
            break
    return seq


def run_case(ctx, case, rng):
    Cur.ctx, Cur.case = ctx, case
    Cur.pre_split = Cur.pre_collapse = None
    Cur.changed = False
    tr = ctx.R.transform
    live = common.live_tree(ctx, case['spec'], rng)
    try:
        with common.captured():
            # the budget separates "does not terminate" from "slow": it grows
            # with the cube of the sentence length
            ntok = len(gen.tokens_of(case['spec']['root']))
            with probe.step_budget(STEPS * max(1, ntok // 20) ** 3):
                looks = dict(case.get('look') or [])
                for i, (step, params) in enumerate(case['seq']):
                    if i in looks or str(i) in looks:
                        from . import pipeline
                        pipeline.look(ctx.R, looks.get(i, looks.get(str(i))),
                                      live)
                    Cur.step = '%d:%s%s' % (i + 1, step, params or '')
                    live = getattr(tr, step)(live, **params)
                    if live is None:
                        break
    except BaseException as e:
        if isinstance(e, (KeyboardInterrupt, SystemExit)):
            raise
    m = model.from_spec(case['spec']['root'])
    if len(case['seq']) >= 4:
        ctx.stratum('sequence length>=4')
    for step, params in case['seq']:
        for k, v in sorted(params.items()):
            ctx.stratum('parameter %s%s' % (k, '=' + v if k ==
                                            'mark_heads_preset' else ''))
    if any(n.children and all((not k.children) and k.word in PUNCT
                              for k in n.children) for n in m.nodes()):
        ctx.stratum('punctuation-only constituent')
    if len(m.toks()) == 1:
        ctx.stratum('one-token sentence')
    if all(t.word in PUNCT for t in m.toks()):
        ctx.stratum('punctuation-only sentence')
    ctx.case([case['spec']['root'], case['seq']],
             nontrivial=len(case['seq']) >= 2 and Cur.changed)


def make_tree(rng):
    dens = rng.choice([0.0, 0.0, 0.15, 0.4, 0.8, 1.0])
    pools = gen.Pools(p_punct=dens, pos=gen.POS + ['PRELS', 'PRELSAT', 'AT',
                                                   'PR'],
                      edges=['HD', 'NK', 'SB', 'OA', '--', '--'])
    n = rng.choice([1, 2, 3, 4, 5, 7, 10]) if rng.random() < 0.7 \
        else rng.randint(1, 25)
    n = gen.maybe_long(rng, n, 0.003)
    spec = gen.tree(rng, n, pools, max_arity=rng.choice([2, 3, 4, 6]),
                    p_unary=rng.choice([0, 0.15, 0.35]),
                    moves=rng.choice([0, 0, 1, 2, 4]),
                    root_pieces=rng.choice([1, 1, 2, 3]),
                    p_root_unary=rng.choice([0, 0, 0.4]))
    if rng.random() < 0.4:
        gen.uproot(rng, spec, 0.3, only_tokens=rng.random() < 0.6)
    # no '+' in labels (collapsing concatenates with '+'), no '@' first
    gen.spice(rng, spec, ['cat-keyword', 'cat-apostrophe', 'cat-digit-first',
                          'pos-apostrophe', 'word-keyword', 'word-unicode',
                          'word-typographic-punct', 'word-unispace',
                          'edge-odd', 'pos-keyword', 'word-python-literal'],
              root_labels=['TOP', 'ROOT', 'S'])
    return spec


def shard(ctx):
    install(ctx.R)
    maxlen = ctx.pick(5, 7)
    for i in ctx.indices(ctx.pick(8000, 300000)):
        rng = ctx.rng('seq', i)
        case = {'kind': 'seq', 'spec': make_tree(rng),
                'seq': draw_sequence(rng, maxlen)}
        from . import pipeline
        looks = pipeline.draw_looks(rng, case['seq'], 0.25)
        if looks:
            case['look'] = looks
            ctx.stratum('tree looked at between the steps (written, numbered, '
                        'analysed, navigated)')
        run_case(ctx, case, rng)
        if i < 4:
            ctx.sample({'tree': model.show(model.from_spec(
                case['spec']['root']), 'w'), 'sequence': case['seq']}, 4)
    # a step applied a second time after the tree was restructured in between:
    # split and raise, move punctuation / re-attach / collapse and restore,
    # split and raise again; binarize twice; top node twice
    for i in ctx.indices(ctx.pick(1200, 60000)):
        rng = ctx.rng('twice', i)
        mark = lambda: rng.choice([['negra_mark_heads', {}],
                                   ['mark_heads_by_rules',
                                    {'mark_heads_preset': 'negra'}]])
        between = rng.choice([
            [['punctuation_root', {}]], [['punctuation_verylow', {}]],
            [['punctuation_symetrify', {}]], [['root_attach', {}]],
            [['collapse_unary_chains', {}], ['uncollapse_unary_chains', {}]],
            [['punctuation_root', {}], ['root_attach', {}]], []])
        kind = rng.choice(['split', 'split', 'split', 'binarize', 'collapse',
                           'split-top-raise'])
        if kind == 'split-top-raise':
            # a new root is put on top of the split tree before it is raised
            seq = ([['root_attach', {}]] if rng.random() < 0.6 else []) + \
                [mark(), ['boyd_split', {}], ['add_topnode', {}],
                 ['raising', {}]]
        elif kind == 'split':
            once = [mark(), ['boyd_split', {}], ['raising', {}]]
            seq = ([['root_attach', {}]] if rng.random() < 0.6 else []) + \
                once + between + [mark(), ['boyd_split', {}], ['raising', {}]]
        elif kind == 'binarize':
            seq = [mark(), ['binarize', {}]] + between + \
                [mark(), ['binarize', rng.choice([{}, {'bare_bin_labels':
                                                       True}])]]
        else:
            seq = [['collapse_unary_chains', {}],
                   ['uncollapse_unary_chains', {}]] + \
                [b for b in between if b[0] not in ('collapse_unary_chains',
                                                    'uncollapse_unary_chains')] \
                + [['collapse_unary_chains', {}],
                   ['uncollapse_unary_chains', {}]]
        case = {'kind': 'seq', 'spec': make_tree(rng), 'seq': seq}
        run_case(ctx, case, rng)
        ctx.stratum('a step applied twice with a restructuring in between '
                    '(%s)' % kind)
    # each transformation alone on every small shape (heads pre-set)
    k = 0
    for n in range(1, ctx.pick(4, 5) + 1):
        for shape, used in gen.all_shapes(list(range(1, n + 1)), 1):
            k += 1
            if not ctx.mine(k):
                continue
            rng = ctx.rng('single', k)
            spec = gen.shape_to_spec(shape, rng, gen.Pools(p_punct=0.3))
            gen.assign_heads(rng, spec)
            for step in ('root_attach', 'add_topnode', 'punctuation_verylow',
                         'punctuation_symetrify', 'punctuation_root',
                         'binarize', 'collapse_unary_chains', 'boyd_split'):
                seq = [[step, {}]]
                if step == 'boyd_split':
                    seq.append(['raising', {}])
                if step == 'collapse_unary_chains':
                    seq.append(['uncollapse_unary_chains', {}])
                run_case(ctx, {'kind': 'seq', 'spec': spec, 'seq': seq}, rng)
            ctx.stratum('single-step sweep')


def replay(ctx, case):
    install(ctx.R)
    run_case(ctx, case, ctx.rng('replay'))

"""C15 -- head marking selects exactly one head child per constituent, as the
rule says (DESIGN 5/C15).  Contracts on the real negra_mark_heads and
mark_heads_by_rules with OLD snapshots."""
from . import common, contracts, gen, model

PROPERTY = 'C15'
LEVEL = 'exploration'
RULE = ('NeGra heuristic: random trees (to 30 tokens, shuffled child lists, '
        'discontinuous) with all mixes of edge labels (several HD, several NK, '
        'none); rule-based: for every parent category of both presets, child '
        'category sequences (1..7 children, any position) in which exactly one '
        'child is listed in the parent\'s head rule, labels written in random '
        'case and with -GF, -n, =n decorations; invalid configurations '
        '(unknown preset, both sources, none); non-trivial = constituent with '
        '>= 2 children whose expected head is not the leftmost child; '
        'distinct = distinct (tree, marker, preset)')
ASSUMPTIONS = ['"listed" = occurs in any priority list of the parent category '
               'in the documented preset; the presets are pinned in '
               'vt/headrules_ref.py (copy of trees/transformconst.py at the '
               'pinned commit), so a slip in the table itself shows as a '
               'wrong head',
               'only the case the property fixes is judged for rule-based '
               'marking (exactly one listed child); no priority semantics '
               'is assumed']
WATCHDOG = {'quick': 600, 'thorough': 3600}
PIPELINE_CASES = {'quick': 500, 'thorough': 20000}   # vt/pipeline.py
MIN = {'quick': {'distinct': 1500,
                 'hooks': {'transform.negra_mark_heads': 1500,
                           'transform.mark_heads_by_rules': 3000},
                 'strata': {'negra: several HD': 100, 'negra: NK only': 100,
                            'negra: neither': 100,
                            'rule: listed child not leftmost': 1000,
                            'invalid configuration rejected': 20,
                            'same production under both presets': 500,
                            'rules: random tree over all rule categories': 1000,
                            'negra: tree already carries head marks': 300,
                            'negra after rule-based marking': 100,
                            'rules: tree already carries head marks': 500}},
       'thorough': {'distinct': 60000,
                    'hooks': {'transform.mark_heads_by_rules': 100000}}}


class Cur(object):
    ctx = None
    case = None
    expect_rule_heads = None   # {id(live parent): index of expected head}


def _fail(mech, detail):
    Cur.ctx.fail('C15:' + mech, Cur.case, detail)


def pre(args, kw):
    return model.snapshot(args[0])


def exactly_one(after, who):
    """root unmarked; one head child per constituent; rest explicitly False"""
    if after.ref.data.get('head') is not False:
        _fail(who + '-root-marked', 'root head flag is %r'
              % (after.ref.data.get('head'),))
        return False
    for n in after.nodes():
        if not n.children:
            continue
        flags = [k.ref.data.get('head') for k in n.kids()]
        if any(f is not True and f is not False for f in flags):
            _fail(who + '-child-unmarked', 'children of %s have flags %r'
                  % (n.label, flags))
            return False
        if sum(1 for f in flags if f) != 1:
            _fail(who + '-not-exactly-one-head', 'children of %s have flags '
                  '%r | %s' % (n.label, flags, model.show(after, 'e')))
            return False
    return True


def post_negra(old, result, exc, args, kw):
    if old is None or old[0]:
        return
    before = old[1]
    if exc is not None:
        _fail('negra-raises', '%r on %s' % (exc, model.show(before, 'e')))
        return
    if result is not args[0]:
        _fail('negra-returns-other-node', '')
        return
    defects, after = model.snapshot(result)
    if defects or model.canon(after, 'wplme') != model.canon(before, 'wplme'):
        _fail('negra-changes-tree', 'structure or fields changed: %r'
              % (defects,))
        return
    if not exactly_one(after, 'negra'):
        return
    T = Cur.ctx.R.trees
    for n in after.nodes():
        if not n.children:
            continue
        kids = n.kids()
        edges = [k.edge for k in kids]
        if 'HD' in edges:
            exp = edges.index('HD')
            Cur.ctx.stratum('negra: several HD' if edges.count('HD') > 1
                            else 'negra: one HD')
        elif 'NK' in edges:
            exp = max(i for i, e in enumerate(edges) if e == 'NK')
            Cur.ctx.stratum('negra: NK only')
        else:
            exp = 0
            Cur.ctx.stratum('negra: neither')
        got = [i for i, k in enumerate(kids) if k.ref.data.get('head')][0]
        if got != exp:
            _fail('negra-wrong-head', 'children of %s have edges %r: head '
                  'index %d, heuristic says %d' % (n.label, edges, got, exp))
            return
        for k in kids:
            lab = T.get_label(k.ref, mark_heads_marking=True)
            if lab.endswith("'") != bool(k.ref.data.get('head')) \
                    and not k.label.endswith("'"):
                _fail('mark_heads_marking-output', 'label %r for head=%r'
                      % (lab, k.ref.data.get('head')))
                return
    nt = any(len(n.children) >= 2 and
             [i for i, k in enumerate(n.kids()) if k.ref.data.get('head')][0] > 0
             for n in after.nodes())
    Cur.ctx.case(['negra', model.canon(before, 'pe')], nontrivial=nt)


def post_rules(old, result, exc, args, kw):
    if old is None or old[0]:
        return
    before = old[1]
    valid = ('mark_heads_preset' in kw) != ('mark_heads_rulefile' in kw) and \
        kw.get('mark_heads_preset', 'negra') in ('negra', 'ptb') and \
        'mark_heads_rulefile' not in kw
    if not valid:
        if isinstance(exc, ValueError):
            Cur.ctx.stratum('invalid configuration rejected')
        elif 'mark_heads_rulefile' in kw and 'mark_heads_preset' not in kw:
            pass    # rule files: "not yet implemented" / empty name: unjudged
        else:
            _fail('rules-invalid-config-accepted', 'params %r: %r'
                  % (kw, exc))
        return
    if exc is not None:
        _fail('rules-raises', '%r on %s' % (exc, model.show(before, '')))
        return
    if result is not args[0]:
        _fail('rules-returns-other-node', '')
        return
    defects, after = model.snapshot(result)
    if defects or model.canon(after, 'wplme') != model.canon(before, 'wplme'):
        _fail('rules-changes-tree', 'structure or fields changed: %r'
              % (defects,))
        return
    if not exactly_one(after, 'rules'):
        return
    nt = False
    for n in after.nodes():
        exp = (Cur.expect_rule_heads or {}).get(id(n.ref))
        if exp is None:
            continue
        kids = n.kids()
        got = [i for i, k in enumerate(kids) if k.ref.data.get('head')][0]
        if exp > 0:
            Cur.ctx.stratum('rule: listed child not leftmost')
            nt = True
        else:
            Cur.ctx.stratum('rule: listed child leftmost')
        if got != exp:
            _fail('rules-wrong-head', 'preset %s: %s -> %s: only %r is listed '
                  'in the head rule of %r, but child %d (%r) is marked'
                  % (kw.get('mark_heads_preset'), n.label,
                     ' '.join(k.label for k in kids), kids[exp].label,
                     n.label, got, kids[got].label))
            return
    Cur.ctx.case(['rules', kw.get('mark_heads_preset'),
                  model.canon(before, 'p')], nontrivial=nt)


def install(R):
    contracts.attach(R.transform, 'negra_mark_heads', pre, post_negra)
    contracts.attach(R.transform, 'mark_heads_by_rules', pre, post_rules)


# ---- workloads -------------------------------------------------------------------

def stale_marks(rng, live):
    """Head flags left over from an earlier marking (any values)."""
    mode = rng.choice(['random', 'all', 'none'])
    stack = [live]
    while stack:
        n = stack.pop()
        n.data['head'] = {'random': rng.random() < 0.5, 'all': True,
                          'none': False}[mode]
        stack.extend(n.children)


def run_negra(ctx, spec, rng, stale=False, twice=None):
    Cur.ctx = ctx
    Cur.case = {'kind': 'negra', 'spec': spec, 'stale': stale, 'twice': twice}
    live = common.live_tree(ctx, spec, rng)
    if stale:
        stale_marks(rng, live)
        ctx.stratum('negra: tree already carries head marks')
    try:
        with common.captured():
            if twice:
                ctx.R.transform.mark_heads_by_rules(live,
                                                    mark_heads_preset=twice)
                ctx.stratum('negra after rule-based marking')
            ctx.R.transform.negra_mark_heads(live)
    except Exception:
        pass


def tables(R):
    """What each preset lists per parent category: the pinned copy of the
    documented tables (vt/headrules_ref.py), not the table the code under
    test carries."""
    from . import headrules_ref
    return {'negra': {p: set(ws) for p, ws in headrules_ref.NEGRA.items()},
            'ptb': {p: set(ws) for p, ws in headrules_ref.PTB.items()}}


def decorate(rng, cat, allow_dash=True):
    """Write a category in random case with decorations that the documented
    label grammar strips: -GF, =n, -n, head mark."""
    s = cat.upper() if rng.random() < 0.6 else \
        (cat if rng.random() < 0.5 else cat.capitalize())
    r = rng.random()
    if r < 0.15 and allow_dash:
        s += '-' + rng.choice(['SBJ', 'HD', 'TMP', 'PRD'])
    if 0.1 < r < 0.2:
        s += '=' + str(rng.randint(1, 3))
    if 0.15 < r < 0.3:
        s += '-' + str(rng.randint(1, 9))
    if r > 0.85 or 0.2 < r < 0.25:
        s += "'"            # head mark, alone or after the other decorations
    return s


def make_rule_case(rng, tabs, preset):
    tab = tabs[preset]
    parents = sorted(p for p in tab if tab[p])
    allcats = sorted(set(w for s in tab.values() for w in s) | set(tab)
                     | {'xx', 'foo', 'zz9', 'EMPTY'})
    nodes_expect = []
    spec_tokens = []
    counter = [0]

    def tok(pos_label):
        counter[0] += 1
        return {'n': counter[0], 'w': 'w%d' % counter[0], 'p': pos_label,
                'e': '--', 'm': '--', 'lm': '--'}

    def make_cons(depth, p=None):
        if p is None:
            p = rng.choice(parents)
        listed = sorted(tab[p])
        unlisted = [c for c in allcats if c not in tab[p]]
        k = rng.randint(1, 7)
        pos = rng.randrange(k)
        kids = []
        for i in range(k):
            cat = rng.choice(listed) if i == pos else rng.choice(unlisted)
            lab = decorate(rng, cat, allow_dash='-' not in cat)
            if depth < 2 and rng.random() < 0.2:
                if cat in tab and tab[cat]:
                    sub = make_cons(depth + 1, cat)
                else:
                    sub = {'l': lab, 'e': '--',
                           'c': [tok(rng.choice(allcats).upper())]}
                sub['l'] = lab
                kids.append(sub)
            else:
                kids.append(tok(lab))
        return {'l': decorate(rng, p, allow_dash='-' not in p), 'e': '--',
                'c': kids, '_head': pos}

    top = make_cons(0)
    root = {'l': 'ROOTX', 'e': '--', 'c': [top]}
    return {'sid': 1, 'root': root}


def make_dual_case(rng, tabs):
    """One constituent whose head differs between the presets: child a is
    listed only in the negra rule of the parent category, child b only in the
    ptb rule."""
    both = sorted(p for p in tabs['negra'] if p in tabs['ptb']
                  and tabs['negra'][p] - tabs['ptb'][p]
                  and tabs['ptb'][p] - tabs['negra'][p])
    p = rng.choice(both)
    a = rng.choice(sorted(tabs['negra'][p] - tabs['ptb'][p]))
    b = rng.choice(sorted(tabs['ptb'][p] - tabs['negra'][p]))
    allcats = sorted(set(w for t in tabs.values() for s in t.values()
                         for w in s))
    neutral = [c for c in allcats if c not in tabs['negra'][p]
               and c not in tabs['ptb'][p]] + ['xx']
    cats = [a, b] + [rng.choice(neutral) for _ in range(rng.randint(0, 3))]
    rng.shuffle(cats)
    kids = [{'n': i + 1, 'w': 'w%d' % i, 'p': c.upper(), 'e': '--', 'm': '--',
             'lm': '--'} for i, c in enumerate(cats)]
    out = {}
    for preset, listed in (('negra', a), ('ptb', b)):
        node = {'l': p.upper(), 'e': '--', 'c': [dict(k) for k in kids],
                '_head': cats.index(listed)}
        out[preset] = {'sid': 1, 'root': {'l': 'ROOTX', 'e': '--',
                                          'c': [node]}}
    return out


def strip_private(node):
    out = {k: v for k, v in node.items() if not k.startswith('_')}
    if 'c' in node:
        out['c'] = [strip_private(c) for c in node['c']]
    return out


def run_rules(ctx, spec_priv, preset, rng, params=None, stale=False):
    R = ctx.R
    Cur.ctx = ctx
    spec = {'sid': spec_priv['sid'], 'root': strip_private(spec_priv['root'])}
    Cur.case = {'kind': 'rules', 'spec': spec_priv, 'preset': preset,
                'params': params}
    live = common.live_tree(ctx, spec, None)
    # expected heads: walk both structures in parallel (child lists are stored
    # in spec order because rng=None above)
    expect = {}

    def go(sn, ln):
        if 'c' not in sn:
            return
        if '_head' in sn:
            # children are generated left to right, so spec order = token order
            expect[id(ln)] = sn['_head']
        for sc, lc in zip(sn['c'], ln.children):
            go(sc, lc)
    go(spec_priv['root'], live)
    if rng is not None:
        # shuffle stored child lists (order must not matter)
        def shuf(ln):
            rng.shuffle(ln.children)
            for c in ln.children:
                shuf(c)
        shuf(live)
    Cur.expect_rule_heads = expect
    kw = params if params is not None else {'mark_heads_preset': preset}
    if stale and rng is not None:
        stale_marks(rng, live)
        ctx.stratum('rules: tree already carries head marks')
    try:
        with common.captured():
            if stale and rng is not None and rng.random() < 0.5:
                R.transform.negra_mark_heads(live)
            R.transform.mark_heads_by_rules(live, **kw)
    except Exception:
        pass
    Cur.expect_rule_heads = None


def shard(ctx):
    install(ctx.R)
    tabs = tables(ctx.R)
    edges = ['HD', 'NK', 'SB', 'OA', '--', 'MO']
    for i in ctx.indices(ctx.pick(3000, 600000)):
        rng = ctx.rng('negra', i)
        mix = rng.choice([['HD', 'NK', 'SB', '--'], ['NK', 'SB', 'MO', '--'],
                          ['SB', 'OA', '--'], ['HD', 'HD', 'NK', 'NK', 'SB'],
                          edges,
                          # the edge labels are HD and NK, spelled like that
                          ['HD', 'hd', 'Hd', 'NK', 'nk', 'SB'],
                          ['hd', 'nk', 'MO', '--', 'HDX', 'XNK']])
        pools = gen.Pools(edges=mix)
        spec = gen.tree(rng, rng.randint(1, 30), pools,
                        max_arity=rng.choice([2, 4, 7]),
                        p_unary=rng.choice([0, 0.2]),
                        moves=rng.choice([0, 0, 2, 5]))
        r = rng.random()
        run_negra(ctx, spec, rng, stale=r < 0.3,
                  twice=rng.choice(['negra', 'ptb']) if 0.3 <= r < 0.45
                  else None)
    for i in ctx.indices(ctx.pick(6000, 1200000)):
        rng = ctx.rng('rules', i)
        preset = rng.choice(['negra', 'ptb'])
        spec = make_rule_case(rng, tabs, preset)
        run_rules(ctx, spec, preset, rng, stale=rng.random() < 0.3)
        if i < 2:
            ctx.sample({'preset': preset,
                        'tree': model.show(model.from_spec(
                            strip_private(spec['root'])), '')}, 4)
    for i in ctx.indices(ctx.pick(800, 40000)):
        rng = ctx.rng('dual', i)
        dual = make_dual_case(rng, tabs)
        order = ['negra', 'ptb'] if rng.random() < 0.5 else ['ptb', 'negra']
        for preset in order + order[:1]:
            run_rules(ctx, dual[preset], preset, rng)
        ctx.stratum('same production under both presets')
    for i in ctx.indices(ctx.pick(1500, 60000)):
        rng = ctx.rng('generic', i)
        preset = rng.choice(['negra', 'ptb'])
        cats = sorted(c.upper() for c in tabs[preset]) + ['XX', 'S', 'NP']
        pools = gen.Pools(cats=cats, pos=[c.upper() for c in
                                           sorted(set(w for s in
                                                      tabs[preset].values()
                                                      for w in s))][:40]
                          + ['NN', 'XY'])
        spec = gen.tree(rng, rng.randint(1, 14), pools,
                        max_arity=rng.choice([2, 3, 5]),
                        p_unary=rng.choice([0, 0.2]),
                        moves=rng.choice([0, 0, 2]))
        Cur.ctx = ctx
        Cur.case = {'kind': 'generic', 'spec': spec, 'preset': preset}
        Cur.expect_rule_heads = None
        live = common.live_tree(ctx, spec, rng)
        try:
            with common.captured():
                ctx.R.transform.mark_heads_by_rules(live,
                                                    mark_heads_preset=preset)
        except Exception:
            pass
        ctx.stratum('rules: random tree over all rule categories')
    bad = [{'mark_heads_preset': 'tiger'}, {'mark_heads_preset': 'PTB'},
           {}, {'mark_heads_preset': 'negra', 'mark_heads_rulefile': 'x'},
           {'mark_heads_preset': ''}, {'mark_heads_preset': 1}]
    for i in ctx.indices(ctx.pick(96, 960)):
        rng = ctx.rng('bad', i)
        spec = make_rule_case(rng, tabs, 'negra')
        run_rules(ctx, spec, 'negra', rng, params=bad[i % len(bad)])
        ctx.case(['invalid', i % len(bad)], nontrivial=False)
    # ---- inside sequences of other transformations (vt/pipeline.py) ----
    from . import pipeline
    pipeline.run(ctx, Cur, ('negra_mark_heads', 'mark_heads_by_rules'), 1500, 60000)



def replay(ctx, case):
    if case.get('kind') == 'pipeline':
        install(ctx.R)
        from . import pipeline
        pipeline.run_case(ctx, Cur, case, ctx.rng('replay'))
        return
    install(ctx.R)
    if case['kind'] == 'generic':
        Cur.ctx, Cur.case = ctx, case
        live = common.live_tree(ctx, case['spec'], ctx.rng('replay'))
        ctx.R.transform.mark_heads_by_rules(live,
                                            mark_heads_preset=case['preset'])
    elif case['kind'] == 'negra':
        run_negra(ctx, case['spec'], ctx.rng('replay'),
                  stale=case.get('stale', False), twice=case.get('twice'))
    else:
        run_rules(ctx, case['spec'], case['preset'], ctx.rng('replay'),
                  params=case.get('params'))

"""Runtime contracts installed on the repository's real functions from outside.

attach(module, 'name', before, after) replaces module.name by a contracted
wrapper.  `before(args, kwargs)` runs at entry and returns the OLD snapshot;
`after(old, result, exc, args, kwargs)` runs at exit (normal or exceptional).
Conditions *record* (into the oracle's event log) and never raise, so one
violation does not hide the rest of the run.

Backend: icontract (snapshot + ensure with named conditions and an explicit
error=) for the normal exit, plus a thin outer frame that observes the
exceptional exit, which neither icontract nor deal checks.  If icontract
cannot be imported, an equivalent shim is used; the backend is reported in
the evidence."""
import functools
import os
import sys

_DEPS = os.path.join(os.path.dirname(os.path.dirname(os.path.abspath(__file__))),
                     '.deps')
if os.path.isdir(_DEPS) and _DEPS not in sys.path:
    sys.path.append(_DEPS)
try:
    import icontract
    BACKEND = 'icontract ' + getattr(icontract, '__version__', '?')
except Exception:           # pragma: no cover
    icontract = None
    BACKEND = 'shim'

if os.environ.get('VT_CONTRACT_BACKEND') == 'shim':
    icontract = None
    BACKEND = 'shim (forced)'


class ContractBroken(Exception):
    pass


COUNTS = {}
ORACLE_ERRORS = []
_installed = []


def _safe(fn, *a):
    """An exception inside a monitor is a defect of the monitor, never of the
    code under test: it is logged and makes the run inconclusive."""
    try:
        return fn(*a)
    except Exception:
        import traceback
        ORACLE_ERRORS.append(traceback.format_exc())
        return None


def attach(module, name, before=None, after=None, key=None):
    """Install a contract on module.name; returns the original function."""
    from . import GUARD
    if os.environ.get(GUARD) != '1':
        raise RuntimeError('refusing to install probes without %s=1' % GUARD)
    orig = getattr(module, name)
    key = key or '%s.%s' % (module.__name__.split('.')[-1], name)
    COUNTS.setdefault(key, 0)

    use_icontract = icontract is not None
    if use_icontract:
        # icontract reserves these parameter names (binarize_rule has a
        # parameter called `result`): such functions get the shim
        import inspect
        try:
            names = set(inspect.signature(orig).parameters)
        except (TypeError, ValueError):
            names = set()
        if names & {'result', 'OLD', '_ARGS', '_KWARGS'}:
            use_icontract = False
    if use_icontract:
        stack = []

        def capture(_ARGS, _KWARGS):
            old = _safe(before, _ARGS, _KWARGS) if before else None
            stack.append(old)
            return old

        def holds(_ARGS, _KWARGS, result, OLD):
            COUNTS[key] += 1
            if stack:
                stack.pop()
            if after:
                _safe(after, OLD.pre, result, None, _ARGS, _KWARGS)
            return True

        inner = icontract.snapshot(capture, name='pre')(
            icontract.ensure(holds, error=ContractBroken)(orig))

        @functools.wraps(orig)
        def wrapper(*args, **kwargs):
            try:
                return inner(*args, **kwargs)
            except ContractBroken:
                raise
            except BaseException as exc:
                COUNTS[key] += 1
                old = stack.pop() if stack else None
                if after:
                    _safe(after, old, None, exc, args, kwargs)
                raise
    else:
        @functools.wraps(orig)
        def wrapper(*args, **kwargs):
            old = _safe(before, args, kwargs) if before else None
            try:
                result = orig(*args, **kwargs)
            except BaseException as exc:
                COUNTS[key] += 1
                if after:
                    _safe(after, old, None, exc, args, kwargs)
                raise
            COUNTS[key] += 1
            if after:
                _safe(after, old, result, None, args, kwargs)
            return result

    wrapper._vt_orig = orig
    setattr(module, name, wrapper)
    _installed.append((module, name, orig))
    return orig


def detach_all():
    while _installed:
        module, name, orig = _installed.pop()
        setattr(module, name, orig)


def attach_gen(module, name, after, key=None):
    """H2 generator monitor: module.name is a generator function.  The
    wrapper generator passes every item through, records them, and calls
    after(items, exc, args, kwargs) when the generator finishes (exc is None)
    or raises.  A consumer that abandons the generator triggers
    after(items, GeneratorExit(), ...)."""
    from . import GUARD
    if os.environ.get(GUARD) != '1':
        raise RuntimeError('refusing to install probes without %s=1' % GUARD)
    orig = getattr(module, name)
    key = key or '%s.%s' % (module.__name__.split('.')[-1], name)
    COUNTS.setdefault(key, 0)

    @functools.wraps(orig)
    def wrapper(*args, **kwargs):
        items = []
        try:
            for item in orig(*args, **kwargs):
                items.append(item)
                yield item
        except GeneratorExit as exc:
            COUNTS[key] += 1
            _safe(after, items, exc, args, kwargs)
            raise
        except BaseException as exc:
            COUNTS[key] += 1
            _safe(after, items, exc, args, kwargs)
            raise
        COUNTS[key] += 1
        _safe(after, items, None, args, kwargs)

    wrapper._vt_orig = orig
    setattr(module, name, wrapper)
    _installed.append((module, name, orig))
    return orig

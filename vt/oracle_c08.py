"""C08 -- rule and lexicon counts are conserved through extraction and
binarization (DESIGN 5/C08).  Offline conservation check over the grammars the
real extract / binarize produce for a treebank whose node, token and root
counts are known from its spec."""
from collections import Counter

from . import common, contracts, gen, lcfrs, model
from .oracle_c06 import make_bank
from .oracle_c07 import all_modes, is_bin

PROPERTY = 'C08'
LEVEL = 'exploration'
RULE = ('random treebanks (1..8 trees, small label pools, duplicated trees, '
        'in 6 % of them one tree that is a single token, '
        'same rule under different parents => several vertical contexts) '
        'built through the Tree API; grammar extracted with the real extract, '
        'then binarized in every mode: treebank / leftright / optimal x '
        'deterministic + Markov v,h in 0..3 +- nofanout; also the count '
        'fields of the written PMCFG file; non-trivial = some rule occurs in '
        '>= 2 vertical contexts and some count > 1; distinct = distinct '
        '(treebank, mode)')
ASSUMPTIONS = ['node / token / root counts per label come from the treebank '
               'spec (vt/lcfrs.py treebank_rule_stats)',
               'binarization symbols are recognised as @...X labels']
WATCHDOG = {'quick': 900, 'thorough': 5400}
MIN = {'quick': {'distinct': 2000,
                 'hooks': {'grammar.binarize': 5000, 'grammar.extract': 1500},
                 'strata': {'markov': 3000, 'deterministic': 1000,
                            'rule in >=2 vertical contexts': 300,
                            'a tree that is a single token (its tag is a '
                            'root)': 100}},
       'thorough': {'distinct': 100000, 'hooks': {'grammar.binarize': 300000}}}


class Cur(object):
    ctx = None
    case = None
    stats = None
    mode = None


def _fail(mech, detail):
    Cur.ctx.fail('C08:' + mech, Cur.case, detail)


def conservation(grammar, stats, what, lex_in=True):
    """Return (mechanism, detail) of the first violated conservation law."""
    nodes, roots, lex, tags = stats
    rc = lcfrs.rule_counts(grammar)
    lhs = Counter()
    rhs = Counter()
    for (f, l), c in rc.items():
        lhs[f[0]] += c
        for sym in f[1:]:
            rhs[sym] += c
    # (a) per original nonterminal
    for lab in set(nodes) | set(x for x in lhs if not is_bin(x)):
        if lhs.get(lab, 0) != nodes.get(lab, 0):
            return ('count-per-nonterminal',
                    '%s: rules rewriting %r carry %d, the treebank has %d '
                    'such nodes' % (what, lab, lhs.get(lab, 0),
                                    nodes.get(lab, 0)))
    # (b) flow conservation for every symbol
    for sym in set(lhs) | set(rhs) | set(tags) | set(roots):
        left = lhs.get(sym, 0) + tags.get(sym, 0)
        right = rhs.get(sym, 0) + roots.get(sym, 0)
        if left != right:
            return ('flow-binarization-symbol' if is_bin(sym)
                    else 'flow-symbol',
                    '%s: symbol %r: rewritten %d (+%d as tag) but used %d '
                    'times on right-hand sides (+%d as root)'
                    % (what, sym, lhs.get(sym, 0), tags.get(sym, 0),
                       rhs.get(sym, 0), roots.get(sym, 0)))
    return None


def post_binarize(old, result, exc, args, kw):
    if exc is not None or Cur.stats is None:
        return
    mk = kw.get('markov_opts')
    bad = conservation(result, Cur.stats, 'binarized grammar')
    Cur.ctx.hook('conservation checked')
    if bad:
        mech, detail = bad
        if mk:
            mech += '-markov' + ('-nofanout' if 'nofanout' in mk else '')
        _fail(mech, detail + ' | mode %r' % (Cur.mode,))
        return
    # (c) low-rank rules keep the sum of their occurrences
    src = lcfrs.rule_counts(args[0])
    dst = lcfrs.rule_counts(result)
    reo = getattr(kw.get('reordering'), '__name__', 'reordering_none')
    if reo == 'reordering_none':
        for (f, l), c in src.items():
            if len(f) - 1 <= 2 and not any(is_bin(x) for x in f) \
                    and dst.get((f, l)) != c:
                # a binarization rule may coincide only with @-symbols
                mech = 'low-rank-count'
                if mk:
                    mech += '-markov' + ('-nofanout' if 'nofanout' in mk
                                         else '')
                _fail(mech, 'rule %r %r occurs %d times, binarized grammar '
                      'says %r | mode %r' % (f, l, c, dst.get((f, l)),
                                             Cur.mode))
                return


def install(R):
    contracts.attach(R.grammar, 'binarize', None, post_binarize)
    contracts.attach(R.grammar, 'extract', None, None)


def run_bank(ctx, bank, rng, modes, case):
    R = ctx.R
    G = R.grammar
    Cur.ctx, Cur.case = ctx, case
    Cur.stats = lcfrs.treebank_rule_stats(bank)
    grammar, lexicon = {}, {}
    for spec in bank:
        if 'c' not in spec['root']:
            # a tree that is a single token (what the bracket reader yields
            # for `(UH Yes)`): its tag occurs as a tree root
            T = R.trees
            live = T.Tree(T.make_node_data())
            tk = spec['root']
            live.data.update(word=tk['w'], label=tk['p'], num=1, edge='--',
                             morph='--', lemma='--', sid=spec['sid'])
            ctx.stratum('a tree that is a single token (its tag is a root)')
        else:
            live = common.live_tree(ctx, spec, rng)
        with common.captured():
            G.extract(live, grammar, lexicon)
    bad = conservation(grammar, Cur.stats, 'treebank grammar')
    if bad:
        _fail(bad[0] + '-extract', bad[1])
    if lcfrs.flatten_lex(lexicon) != Cur.stats[2]:
        _fail('lexicon-counts', 'lexicon counts differ from token counts')
    multi = any(len(grammar[f][l]) >= 2 for f in grammar for l in grammar[f])
    big = any(c > 1 for c in lcfrs.rule_counts(grammar).values())
    if multi:
        ctx.stratum('rule in >=2 vertical contexts')
    for mode in modes:
        for reo in ('none', 'optimal'):
            Cur.mode = [mode, reo]
            case['mode'] = [mode, reo]
            fn = G.reordering_none if reo == 'none' else G.reordering_optimal
            try:
                with common.captured():
                    G.binarize(grammar, reordering=fn,
                               markov_opts=dict(mode) if mode else None)
            except Exception as exc:
                _fail('binarize-raises', '%r mode %r' % (exc, Cur.mode))
            ctx.stratum('markov' if mode else 'deterministic')
            ctx.case([[s['root'] for s in bank], mode, reo],
                     nontrivial=multi and big)
    if multi and big:
        ctx.sample({'bank': [model.show(model.from_spec(s['root']), '')
                             for s in bank][:3]}, 3)


def shard(ctx):
    install(ctx.R)
    modes = all_modes()
    quick = ctx.quick()
    for i in ctx.indices(ctx.pick(6000, 60000)):
        rng = ctx.rng('bank', i)
        bank = make_bank(rng, quick)
        if rng.random() < 0.06:
            # one more tree: a token of the treebank on its own
            tk = rng.choice(gen.tokens_of(rng.choice(bank)['root']))
            bank.insert(rng.randrange(len(bank) + 1),
                        {'sid': len(bank) + 1,
                         'root': {'n': 1, 'w': tk['w'], 'p': tk['p'],
                                  'e': '--', 'm': '--', 'lm': '--'}})
        ms = [None] + [modes[rng.randrange(1, len(modes))]
                       for _ in range(ctx.pick(4, 8))]
        run_bank(ctx, bank, rng, ms, {'kind': 'bank', 'bank': bank})


def replay(ctx, case):
    install(ctx.R)
    mode = case.get('mode', [None, 'none'])[0]
    run_bank(ctx, case['bank'], ctx.rng('replay'), [mode], dict(case))

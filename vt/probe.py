"""Hook mechanisms that need more than a wrapper: logical step budgets and
line probes (sys.monitoring, 3.12+), recording streams, the audit hook."""
import contextlib
import io
import sys

MON = getattr(sys, 'monitoring', None)
TOOL = 4        # a free tool id (0 debugger, 1 coverage, 2 profiler, 5 optimizer)


class StepBudgetExceeded(BaseException):
    """Raised *inside* the monitored code when it executes more Python
    function entries / backward jumps than the budget: decides non-termination
    on logical steps, not wall-clock time (BaseException so that the
    repository's own `except Exception`/ValueError handlers cannot swallow
    it)."""


class _Budget(object):
    def __init__(self):
        self.left = 0
        self.active = False
        self.used = 0


_B = _Budget()


def _tick(code, offset, *a):
    if _B.active:
        _B.left -= 1
        if _B.left < 0:
            _B.active = False
            raise StepBudgetExceeded()


@contextlib.contextmanager
def step_budget(steps):
    """Count PY_START and JUMP events while the block runs; raise
    StepBudgetExceeded in the running code when more than `steps` happen."""
    if MON is None:
        yield
        return
    fresh = False
    try:
        if MON.get_tool(TOOL) is None:
            MON.use_tool_id(TOOL, 'vt-step-budget')
            fresh = True
            MON.register_callback(TOOL, MON.events.PY_START, _tick)
            MON.register_callback(TOOL, MON.events.JUMP, _tick)
    except ValueError:
        pass
    _B.left = steps
    _B.active = True
    MON.set_events(TOOL, MON.events.PY_START | MON.events.JUMP)
    try:
        yield
    finally:
        _B.active = False
        _B.used = steps - _B.left
        MON.set_events(TOOL, 0)


class RecordingStream(object):
    """H3: proxy around a text stream that records every write, so that the
    exact text each writer call emits can be attributed to that call."""

    def __init__(self, inner=None):
        self.inner = inner if inner is not None else io.StringIO()
        self.chunks = []
        self.marks = []

    def write(self, s):
        self.chunks.append(s)
        return self.inner.write(s)

    def mark(self):
        """Text written since the previous mark."""
        text = ''.join(self.chunks)
        self.chunks = []
        self.marks.append(text)
        return text

    def getvalue(self):
        return self.inner.getvalue()

    def __getattr__(self, name):
        return getattr(self.inner, name)


_audit_log = None
_audit_installed = False


def _audit(event, args):
    if _audit_log is not None and event == 'open':
        try:
            _audit_log.append((str(args[0]), str(args[1])))
        except Exception:
            pass


@contextlib.contextmanager
def audit_opens():
    """H5: record (path, mode) of every file opened inside the block."""
    global _audit_log, _audit_installed
    if not _audit_installed:
        sys.addaudithook(_audit)
        _audit_installed = True
    log = []
    prev = _audit_log
    _audit_log = log
    try:
        yield log
    finally:
        _audit_log = prev

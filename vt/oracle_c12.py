"""C12 -- root_attach moves only root children, to the lowest node spanning
the neighbours (DESIGN 5/C12).  Contract on the real transform.root_attach
with OLD snapshot; expectation from a set-based reference of the docstring."""
from . import common, contracts, gen, model

PROPERTY = 'C12'
LEVEL = 'exploration'
RULE = ('trees built through the Tree API with child lists in random order; '
        'complete sweep of all unordered tree shapes (= all root '
        'configurations) over tokens 1..n, n <= 5 quick / 7 thorough, plus '
        'random trees to 40 tokens whose root has 1..9 children mixing tokens '
        'and (dis)continuous constituents, produced by detaching random '
        'tokens/constituents to the root (material inside gaps, consecutive '
        'unattached tokens, sentence edges); non-trivial = the reference '
        'moves at least one node; distinct = distinct canonical tree')
ASSUMPTIONS = ['ref_root_attach in this file is the set-based reading of the '
               'docstring: left-to-right over the root children as they are '
               'at the start, neighbours min-1 / max+1, right-sibling '
               'skipping over adjacent not-yet-attached root children '
               '(interleaved ones are passed over), stay at sentence edges or '
               'when the lowest common dominator is the root']
WATCHDOG = {'quick': 600, 'thorough': 3600}
LONG_SENTENCES = 3      # floor for the stratum the runner adds (gen.maybe_long)
PIPELINE_CASES = {'quick': 500, 'thorough': 20000}   # vt/pipeline.py
MIN = {'quick': {'distinct': 400, 'hooks': {'transform.root_attach': 2000},
                 'strata': {'second call after in-place detachment': 300,
                            'moved>=2': 100, 'moved constituent': 50,
                            'moved, boundary extended over siblings': 50,
                            'moved, interleaved sibling passed over': 20}},
       'thorough': {'distinct': 20000,
                    'hooks': {'transform.root_attach': 100000}}}


class Cur(object):
    ctx = None
    spec = None


def ref_root_attach(root):
    """Set-based reference on a model tree (mutates it).  Returns the list of
    moved nodes."""
    toks = root.toks()
    n = len(toks)
    by_num = {t.num: t for t in toks}
    moved = []
    for child in root.kids():
        nums = child.nums()
        t_l = nums[0] - 1
        t_r = nums[-1] + 1
        focus_max = nums[-1]
        # right siblings among the *current* root children
        sibs = [k for k in root.kids()]
        idx = [i for i, k in enumerate(sibs) if k is child]
        if not idx:
            # already re-attached as part of an earlier move? cannot happen:
            # only `child` itself is ever moved in its own turn
            continue
        j = idx[0] + 1
        while j < len(sibs):
            s = sibs[j].nums()
            if s[0] < focus_max:
                child.attrs['_skipped'] = True
                j += 1
                continue
            if s[0] > focus_max + 1:
                break
            t_r = s[-1] + 1
            focus_max = s[-1]
            child.attrs['_extended'] = True
            j += 1
        if t_l < 1 or t_r > n:
            continue
        a, b = by_num[t_l], by_num[t_r]
        anc_b = set(id(x) for x in b.ancestors())
        target = [x for x in a.ancestors() if id(x) in anc_b][0]
        if target is root:
            continue
        child.detach()
        target.add(child)
        moved.append(child)
    return moved


def pre(args, kw):
    defects, m = model.snapshot(args[0])
    return (defects, m)


def post(old, result, exc, args, kw):
    ctx = Cur.ctx
    case = {'kind': 'tree', 'spec': Cur.spec}
    if old is None:
        return
    defects0, before = old
    if defects0:
        return
    if exc is not None:
        ctx.fail('C12:raises', case, 'root_attach raised %r on %s'
                 % (exc, model.show(before, 'w')))
        return
    if result is not args[0]:
        ctx.fail('C12:returns-other-node', case, 'returned %r'
                 % (getattr(result, 'data', {}).get('label'),))
        return
    defects, after = model.snapshot(result)
    if defects:
        ctx.fail('C12:ill-formed-result', case, '; '.join(defects))
        return
    exp = before.copy()
    moved = ref_root_attach(exp)
    exp_par = model.parent_map(exp)
    got_par = model.parent_map(after)
    if set(exp_par) != set(got_par):
        ctx.fail('C12:node-set-changed', case, 'nodes lost or created')
        return
    old_par = model.parent_map(before)
    bad = [k for k in exp_par if exp_par[k] != got_par[k]]
    if bad:
        names = {id(n.ref): n for n in after.nodes()}
        n0 = names[bad[0]]
        was_root_child = old_par[bad[0]] == id(before.ref)
        mech = 'C12:wrong-target' if was_root_child else 'C12:non-root-child-moved'
        expn = [x for x in exp.nodes() if id(x.ref) == bad[0]][0]
        ctx.fail(mech, case, 'node %s yield %r: attached to %s, reference says '
                 '%s | before %s | after %s | reference %s'
                 % (n0.label, n0.nums(), n0.parent.label if n0.parent else None,
                    expn.parent.label if expn.parent else None,
                    model.show(before, ''), model.show(after, ''),
                    model.show(exp, '')))
        return
    if model.canon(after, 'wplme') != model.canon(exp, 'wplme'):
        ctx.fail('C12:labels-or-tokens-changed', case,
                 'field content changed: %s vs %s'
                 % (model.show(after), model.show(exp)))
        return
    # bookkeeping for the evidence
    ctx.case(model.canon(before, 'p'), nontrivial=len(moved) > 0)
    ctx.stratum('moved=%d' % len(moved) if len(moved) < 2 else 'moved>=2')
    if any(x.children for x in moved):
        ctx.stratum('moved constituent')
    if any(x.attrs.get('_extended') for x in moved):
        ctx.stratum('moved, boundary extended over siblings')
    if any(x.attrs.get('_skipped') for x in moved):
        ctx.stratum('moved, interleaved sibling passed over')
    if len(moved) >= 2:
        ctx.sample({'before': model.show(before, 'w'),
                    'after': model.show(after, 'w')}, 3)


def _find(m, ref):
    for n in m.nodes():
        if n.ref is ref:
            return n
    return None


def install(R):
    contracts.attach(R.transform, 'root_attach', pre, post)


def run_tree(ctx, spec, rng):
    Cur.ctx, Cur.spec = ctx, spec
    live = common.live_tree(ctx, spec, rng)
    try:
        with common.captured():
            ctx.R.transform.root_attach(live)
            if rng.random() < 0.25:
                # same node objects: detach some nodes to the root again (in
                # place, through the raw attributes) and attach once more
                stack = [live]
                moved = 0
                while stack:
                    x = stack.pop()
                    stack.extend(x.children)
                    if x.parent is not None and x.parent is not live and \
                            len(x.parent.children) > 1 and rng.random() < 0.2:
                        x.parent.children.remove(x)
                        live.children.append(x)
                        x.parent = live
                        moved += 1
                if moved:
                    ctx.R.transform.root_attach(live)
                    ctx.stratum('second call after in-place detachment')
    except Exception:
        pass


def shard(ctx):
    install(ctx.R)
    pools = gen.Pools()
    nmax = ctx.pick(5, 7)
    i = 0
    for n in range(1, nmax + 1):
        for shape, used in gen.all_shapes(list(range(1, n + 1)), 1 if n <= 5 else 0):
            i += 1
            if ctx.mine(i):
                rng = ctx.rng('sweep', i)
                run_tree(ctx, gen.shape_to_spec(shape, rng, pools), rng)
                ctx.stratum('sweep')
    for i in ctx.indices(ctx.pick(6000, 1500000)):
        rng = ctx.rng('rand', i)
        n = rng.choice([3, 4, 5, 6, 8, 10, 15]) if rng.random() < 0.7 \
            else rng.randint(2, 40)
        n = gen.maybe_long(rng, n, 0.003)
        spec = gen.tree(rng, n, pools, max_arity=rng.choice([2, 3, 4, 6]),
                        p_unary=rng.choice([0, 0.1, 0.25]),
                        moves=rng.choice([0, 0, 1, 2, 4]),
                        root_pieces=rng.choice([1, 1, 2, 3, 5, 8]))
        gen.spice(rng, spec, ['cat-keyword', 'cat-apostrophe', 'cat-punct-char',
                              'pos-punct-char', 'word-keyword',
                              'word-typographic-punct', 'edge-odd',
                              'cat-decorated', 'pos-keyword'],
                  root_labels=['TOP', 'ROOT', 'S', 'EMPTY', ''])
        gen.uproot(rng, spec, p=rng.choice([0.1, 0.25, 0.5]),
                   only_tokens=rng.random() < 0.5)
        run_tree(ctx, spec, rng)
        ctx.stratum('random')
    # ---- inside sequences of other transformations (vt/pipeline.py) ----
    from . import pipeline
    pipeline.run(ctx, Cur, ('root_attach',), 1500, 60000)



def replay(ctx, case):
    if case.get('kind') == 'pipeline':
        install(ctx.R)
        from . import pipeline
        pipeline.run_case(ctx, Cur, case, ctx.rng('replay'))
        return
    install(ctx.R)
    run_tree(ctx, case['spec'], ctx.rng('replay'))

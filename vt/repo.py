"""Import the repository under test from the working tree ($VT_REPO, default
/repo) and refuse to hand out anything that comes from elsewhere."""
import importlib
import os
import sys

REPO = os.path.realpath(os.environ.get('VT_REPO', '/repo'))
PYTHON = sys.executable
CLI = os.path.join(REPO, 'treetools')

MODS = ['trees', 'treeinput', 'treeoutput', 'transform', 'transformconst',
        'treeanalysis', 'grammar', 'grammaranalysis', 'grammarconst',
        'grammarinput', 'grammaroutput', 'transitions', 'transitionoutput',
        'misc']


class R(object):
    """Namespace of repository modules: R.trees, R.transform, ..."""
    pass


_loaded = None


def load():
    global _loaded
    if _loaded is not None:
        return _loaded
    # the editable-install finder would resolve 'trees' to /repo regardless of
    # VT_REPO; take it out and put the working tree first on sys.path.
    sys.meta_path[:] = [f for f in sys.meta_path
                        if 'Editable' not in getattr(f, '__name__', '')
                        and 'editable' not in getattr(f, '__module__', '')]
    if sys.path[0] != REPO:
        sys.path.insert(0, REPO)
    for name in list(sys.modules):
        if name == 'trees' or name.startswith('trees.'):
            del sys.modules[name]
    r = R()
    r.pkg = importlib.import_module('trees')
    for m in MODS:
        mod = importlib.import_module('trees.' + m)
        f = os.path.realpath(mod.__file__)
        if not f.startswith(REPO + os.sep):
            raise RuntimeError('module %s loaded from %s, not from %s'
                               % (m, f, REPO))
        setattr(r, m, mod)
    r.root = REPO
    _loaded = r
    return r

"""C11 -- token-editing transformations change exactly the targeted tokens
(DESIGN 5/C11).  Contracts with OLD snapshots on the real punctuation_delete,
ptb_delete_traces, insert_terminals, substitute_terminals, filter_by_length
and trees.delete_terminal; expectations from reference semantics over the
token list, written from the docstrings."""
import io
import os

from . import common, contracts, gen, model, probe

PROPERTY = 'C11'
LEVEL = 'exploration'
RULE = ('trees built through the Tree API (1..25 tokens, shuffled child '
        'lists, some discontinuous) with punctuation / trace tokens first, '
        'last, below unary chains, as sole content of constituents; terminal '
        'files with valid, 0, negative, len+1, len+2, duplicate indices and '
        'foreign sentence ids, with and without the POS column; parameters '
        'quiet, keep, keepall, keepcoindex, slash, filteroperator/value; '
        'non-trivial = the reference changes at least one token (or filters '
        'the tree); distinct = distinct (operation, tree, parameters, file)')
ASSUMPTIONS = ['reference semantics in this file (ref_*), from the docstrings; '
               'insert position semantics as pinned by the existing test '
               '(new token takes position i at that moment)',
               'under `slash` only the generic clauses are judged; a '
               'ValueError for unresolvable fillers is a rejection (tallied)',
               'never asks for a deletion that would leave no token']
WATCHDOG = {'quick': 600, 'thorough': 3600}
PIPELINE_CASES = {'quick': 500, 'thorough': 20000}   # vt/pipeline.py
MIN = {'quick': {'distinct': 3000,
                 'hooks': {'transform.punctuation_delete': 1000,
                           'transform.ptb_delete_traces': 1000,
                           'transform.insert_terminals': 1000,
                           'transform.substitute_terminals': 1000,
                           'transform.filter_by_length': 300,
                           'trees.delete_terminal': 2000},
                 'strata': {'second edit on the same tree': 500,
                            'insert: index len+1': 50, 'insert: index 0': 50,
                            'insert: negative index': 50,
                            'substitute: out of range, quiet': 50,
                            'traces: keep+keepcoindex': 50,
                            'punct: constituent pruned': 100}},
       'thorough': {'distinct': 100000,
                    'hooks': {'trees.delete_terminal': 100000}}}
STEPS = 3000000
PUNCT = set(gen.PUNCT)


class Cur(object):
    ctx = None
    case = None
    expect_lines = None


def _fail(mech, detail):
    Cur.ctx.fail('C11:' + mech, Cur.case, detail)


# ---- reference semantics ---------------------------------------------------------

def ref_delete(m, nums):
    """Delete the tokens with these numbers, prune emptied constituents,
    renumber the rest 1..n."""
    for t in m.toks():
        if t.num in nums:
            n = t
            while n.parent is not None:
                p = n.parent
                p.children.remove(n)
                n.parent = None
                if p.children:
                    break
                n = p
    for i, t in enumerate(m.toks()):
        t.num = i + 1
    return m


def ref_insert(m, entries):
    for idx in sorted(entries):
        n = len(m.toks())
        if not (1 <= idx <= n + 1):
            continue
        for t in m.toks():
            if t.num >= idx:
                t.num += 1
        w, p = entries[idx]
        tok = model.MN(label=p, edge='--', num=idx, word=w, lemma='--',
                       morph='--')
        m.add(tok)
    return m


def ref_substitute(m, entries):
    toks = m.toks()
    for idx in sorted(entries):
        if not (1 <= idx <= len(toks)):
            continue
        w, p = entries[idx]
        toks[idx - 1].word = w
        if p is not None:
            toks[idx - 1].label = p
    return m


def pre(args, kw):
    return model.snapshot(args[0])


def common_post(name, old, result, exc, args, expect_root=True):
    """-> (before, after) or None"""
    if old is None or old[0]:
        return None
    before = old[1]
    if isinstance(exc, probe.StepBudgetExceeded):
        _fail(name + '-does-not-terminate', 'on ' + model.show(before, 'w'))
        return None
    if exc is not None:
        _fail(name + '-raises', '%r on %s' % (exc, model.show(before, 'w')))
        return None
    if result is None:
        _fail(name + '-returns-none', '')
        return None
    if expect_root and result is not args[0]:
        what = 'a subtree' if getattr(result, 'parent', None) is not None \
            else 'another root'
        _fail(name + '-returns-not-the-root', 'returned %s (label %r) | '
              'input %s' % (what, result.data.get('label'),
                            model.show(before, 'w')))
        return None
    defects, after = model.snapshot(args[0])
    if defects:
        _fail(name + '-ill-formed', '; '.join(defects[:3]) + ' | input '
              + model.show(before, 'w'))
        return None
    return before, after


def compare(name, after, exp, before, fields='wple'):
    if model.canon(after, fields) != model.canon(exp, fields):
        mech = name + '-differs-from-reference'
        if model.token_seq(after, 'wp') != model.token_seq(exp, 'wp'):
            mech = name + '-token-sequence'
        _fail(mech, 'input %s | output %s | reference %s'
              % (model.show(before, 'w'), model.show(after, 'w'),
                 model.show(exp, 'w')))
        return False
    return True


def post_punct(old, result, exc, args, kw):
    Cur.expect_lines = None
    r = common_post('punctuation_delete', old, result, exc, args)
    if r is None:
        return
    before, after = r
    toks = before.toks()
    rem = [t for t in toks if t.word in PUNCT]
    exp = before.copy()
    lines = []
    if len(rem) != len(toks):
        ref_delete(exp, set(t.num for t in rem))
        sid = args[0].data.get('sid')
        lines = ['%s\t%s\t%s\t%s' % (sid, t.num, t.word, t.label) for t in rem]
    Cur.expect_lines = lines
    if not compare('punctuation_delete', after, exp, before):
        return
    if len([n for n in exp.nodes() if n.children]) < \
            len([n for n in before.nodes() if n.children]):
        Cur.ctx.stratum('punct: constituent pruned')
    if rem and len(rem) == len(toks):
        Cur.ctx.stratum('punct: punctuation-only sentence')
    Cur.ctx.case(['pd', model.canon(before, 'wp')], nontrivial=bool(lines))


def post_traces(old, result, exc, args, kw):
    if 'slash' in kw and isinstance(exc, ValueError):
        Cur.ctx.stratum('traces: slash rejected')
        return
    r = common_post('ptb_delete_traces', old, result, exc, args)
    if r is None:
        return
    before, after = r
    case = Cur.case
    tmap = case.get('tracemap', {})
    lmap = case.get('labelmap', {})
    keep = kw['keep'].split(',') if 'keep' in kw else []
    keepall = 'keepall' in kw
    keepco = 'keepcoindex' in kw
    exp = before.copy()
    delete = set()
    for t in exp.toks():
        if t.label != '-NONE-':
            continue
        bare, co = tmap.get(t.word, (t.word, ''))
        if keepall or bare in keep:
            t.label = bare + ('-' + co if (keepco and co) else '')
            t.word = '-NONE-'
        else:
            delete.add(t.num)
    ref_delete(exp, delete)
    for n in exp.nodes():
        if n.children and n.label in lmap:
            n.label = lmap[n.label][1 if keepco else 0]
    if 'slash' in kw:
        # generic clauses only: tokens that are not traces keep word, POS and
        # order, numbering 1..n, no index on any label unless asked for
        keep_w = [(t.word, t.label) for t in before.toks()
                  if t.label != '-NONE-']
        got_w = [(t.word, t.label) for t in after.toks()
                 if t.word != '-NONE-']
        if keep_w != got_w:
            _fail('ptb_delete_traces-slash-tokens', 'non-trace tokens %r, '
                  'input had %r' % (got_w[:6], keep_w[:6]))
        Cur.ctx.stratum('traces: slash')
    else:
        name = 'ptb_delete_traces'
        if keepco and keep and not keepall:
            name = 'ptb_delete_traces-keep+keepcoindex'
        if not compare(name, after, exp, before):
            return
    # no index on any label unless asked for (direct clause)
    import re
    for n in after.nodes():
        if n.children and not keepco and re.search(r'[-=]\d+$',
                                                   n.label.split('/')[0]):
            _fail('ptb_delete_traces-index-remains', 'label %r' % n.label)
            return
    if keep and keepco:
        Cur.ctx.stratum('traces: keep+keepcoindex')
    if any(t.label == '-NONE-' and not t.parent.children[1:]
           for t in before.toks()):
        Cur.ctx.stratum('traces: sole content of a constituent')
    Cur.ctx.case(['tr', sorted(kw.items()), model.canon(before, 'wp')],
                 nontrivial=any(t.label == '-NONE-' for t in before.toks()))


def entries_for(case, sid):
    out = {}
    for row in case['tfile']:
        if int(row[0]) == sid:
            out[int(row[1])] = (row[2], row[3] if len(row) > 3 else None)
    return out


def has_dup(case):
    seen = set()
    for row in case['tfile']:
        k = (int(row[0]), int(row[1]))
        if k in seen:
            return True
        seen.add(k)
    return False


def post_insert(old, result, exc, args, kw):
    case = Cur.case
    if has_dup(case):
        if isinstance(exc, ValueError):
            Cur.ctx.stratum('insert: duplicate rejected')
        else:
            _fail('insert_terminals-duplicate-accepted', 'duplicate index in '
                  'the file, outcome %r' % (exc,))
        return
    r = common_post('insert_terminals', old, result, exc, args)
    if r is None:
        return
    before, after = r
    sid = args[0].data.get('sid')
    ent = entries_for(case, sid)
    exp = ref_insert(before.copy(), ent)
    n = len(before.toks())
    for idx in ent:
        if idx == 0:
            Cur.ctx.stratum('insert: index 0')
        elif idx < 0:
            Cur.ctx.stratum('insert: negative index')
        elif idx == n + 1:
            Cur.ctx.stratum('insert: index len+1')
        elif idx > n + 1:
            Cur.ctx.stratum('insert: index > len+1')
    if model.canon(after, 'wp') != model.canon(exp, 'wp'):
        mech = 'insert_terminals-differs-from-reference'
        if any(i < 0 for i in ent):
            mech = 'insert_terminals-negative-index'
        _fail(mech, 'requests %r | input %s | output %s | reference %s'
              % (sorted(ent.items()), model.show(before, 'w'),
                 model.show(after, 'w'), model.show(exp, 'w')))
        return
    Cur.ctx.case(['ins', sorted(ent.items()), model.canon(before, 'wp')],
                 nontrivial=len(exp.toks()) != n)


def post_subst(old, result, exc, args, kw):
    case = Cur.case
    if has_dup(case):
        if isinstance(exc, ValueError):
            Cur.ctx.stratum('substitute: duplicate rejected')
        else:
            _fail('substitute_terminals-duplicate-accepted', 'outcome %r'
                  % (exc,))
        return
    sid = args[0].data.get('sid')
    ent = entries_for(case, sid)
    before0 = old[1] if old and not old[0] else None
    n = len(before0.toks()) if before0 else 0
    oor = [i for i in ent if not (1 <= i <= n)]
    quiet = 'quiet' in kw
    if oor:
        Cur.ctx.stratum('substitute: out of range, %s'
                        % ('quiet' if quiet else 'verbose'))
    if exc is not None and oor and before0 is not None and \
            not isinstance(exc, probe.StepBudgetExceeded):
        _fail('substitute_terminals-out-of-range-raises' +
              ('-quiet' if quiet else ''),
              'requests %r on a %d-token sentence: %r'
              % (sorted(ent), n, exc))
        return
    r = common_post('substitute_terminals', old, result, exc, args)
    if r is None:
        return
    before, after = r
    exp = ref_substitute(before.copy(), ent)
    if model.canon(after, 'wple') != model.canon(exp, 'wple'):
        mech = 'substitute_terminals-differs-from-reference'
        if oor:
            mech = 'substitute_terminals-out-of-range-touches-token' + \
                ('-quiet' if quiet else '')
        _fail(mech, 'requests %r | input %s | output %s | reference %s'
              % (sorted(ent.items()), model.show(before, 'w'),
                 model.show(after, 'w'), model.show(exp, 'w')))
        return
    Cur.ctx.case(['sub', sorted((k, v) for k, v in ent.items()), quiet,
                  model.canon(before, 'wp')],
                 nontrivial=model.canon(exp, 'wp') != model.canon(before, 'wp'))


def post_filter(old, result, exc, args, kw):
    if old is None or old[0]:
        return
    before = old[1]
    if exc is not None:
        _fail('filter_by_length-raises', repr(exc))
        return
    n = len(before.toks())
    op, val = kw.get('filteroperator'), kw.get('filtervalue')
    drop = {'lt': n < val, 'gt': n > val, 'eq': n == val}.get(op, False)
    if drop != (result is None):
        _fail('filter_by_length-decision', '%d tokens, %s %r: returned %s'
              % (n, op, val, 'None' if result is None else 'the tree'))
        return
    if result is not None:
        if result is not args[0]:
            _fail('filter_by_length-returns-other-node', '')
            return
    defects, after = model.snapshot(args[0])
    if defects or model.canon(after, 'wplme') != model.canon(before, 'wplme'):
        _fail('filter_by_length-changes-tree', '')
        return
    Cur.ctx.case(['flt', op, val, n], nontrivial=drop)
    Cur.ctx.stratum('filter %s %s' % (op, 'dropped' if drop else 'kept'))


def pre_delterm(args, kw):
    root = args[0]
    while getattr(root, 'parent', None) is not None:
        root = root.parent
    d, m = model.snapshot(root)
    return d, m, root


def post_delterm(old, result, exc, args, kw):
    if old is None or old[0]:
        return
    defects0, before, root = old
    leaf = args[1]
    if exc is not None:
        _fail('delete_terminal-raises', repr(exc))
        return
    mleaf = [n for n in before.nodes() if n.ref is leaf]
    if not mleaf or mleaf[0].children or len(before.toks()) < 2:
        return
    mleaf = mleaf[0]
    # expected surviving ancestor
    anc = mleaf.parent
    while anc.parent is not None and len(anc.children) == 1:
        anc = anc.parent
    exp = ref_delete(before.copy(), {mleaf.num})
    defects, after = model.snapshot(root)
    if defects:
        _fail('delete_terminal-ill-formed', '; '.join(defects[:3]))
        return
    if model.canon(after, 'wple') != model.canon(exp, 'wple'):
        _fail('delete_terminal-differs-from-reference', 'delete token %d | '
              'input %s | output %s' % (mleaf.num, model.show(before, 'w'),
                                        model.show(after, 'w')))
        return
    if result is not anc.ref:
        _fail('delete_terminal-return', 'returned %r, lowest surviving '
              'ancestor is %r' % (getattr(result, 'data', {}).get('label'),
                                  anc.label))


def install(R):
    tr = R.transform
    contracts.attach(tr, 'punctuation_delete', pre, post_punct)
    contracts.attach(tr, 'ptb_delete_traces', pre, post_traces)
    contracts.attach(tr, 'insert_terminals', pre, post_insert)
    contracts.attach(tr, 'substitute_terminals', pre, post_subst)
    contracts.attach(tr, 'filter_by_length', pre, post_filter)
    contracts.attach(R.trees, 'delete_terminal', pre_delterm, post_delterm)


# ---- workloads ---------------------------------------------------------------------

def run_case(ctx, case, rng):
    Cur.ctx, Cur.case, Cur.expect_lines = ctx, case, None
    R = ctx.R
    live = common.live_tree(ctx, case['spec'], rng)
    params = dict(case.get('params', {}))
    if 'tfile' in case:
        path = ctx.path('.terminals')
        text = ''.join(case.get('sep', '\t').join(str(x) for x in row) + '\n'
                       for row in case['tfile'])
        import zlib
        if zlib.crc32(text.encode('utf-8')) % 12 == 0:
            # how the file is handed over is not part of the input: here it
            # is a named pipe that another thread fills (the output of zcat,
            # a process substitution)
            import threading
            os.mkfifo(path)

            def feed():
                with io.open(path, 'w') as f:
                    f.write(text)
            threading.Thread(target=feed, daemon=True).start()
            ctx.stratum('terminal file is a named pipe')
        else:
            with io.open(path, 'w') as f:
                f.write(text)
        params['terminalfile'] = path
    op = case['op']
    out = None
    try:
        with common.captured() as (out, err):
            with probe.step_budget(STEPS):
                if op == 'delete_terminal':
                    toks = sorted(R.trees.unordered_terminals(live),
                                  key=lambda t: t.data['num'])
                    R.trees.delete_terminal(live, toks[case['which'] - 1])
                else:
                    res = getattr(R.transform, op)(live, **params)
                    if case.get('then') and res is not None and \
                            op != 'punctuation_delete':
                        # a second edit on the same tree objects
                        Cur.expect_lines = None
                        getattr(R.transform, case['then'])(
                            res, **case.get('then_params', {}))
                        ctx.stratum('second edit on the same tree')
    except BaseException as e:
        if isinstance(e, (KeyboardInterrupt, SystemExit)):
            raise
    if op == 'punctuation_delete' and Cur.expect_lines is not None \
            and out is not None:
        got = [ln for ln in out.getvalue().split('\n') if ln != '']
        if got != Cur.expect_lines:
            _fail('punctuation_delete-report', 'printed %r, expected %r'
                  % (got[:5], Cur.expect_lines[:5]))
    ctx.stratum('op ' + op)


def base_tree(rng, pools, nmax=25):
    n = rng.choice([1, 2, 3, 4, 5, 7, 10]) if rng.random() < 0.7 \
        else rng.randint(1, nmax)
    return gen.tree(rng, n, pools, max_arity=rng.choice([2, 3, 4, 6]),
                    p_unary=rng.choice([0, 0.2, 0.4]),
                    moves=rng.choice([0, 0, 0, 1, 3]),
                    root_pieces=rng.choice([1, 1, 2, 3]),
                    sid=rng.choice([1, 2, 7, 42, 0, 0]))


CATS = ['S', 'NP', 'VP', 'SBAR', 'WHNP', 'PP', 'ADVP', 'SQ']
TRACE_CATS = ['*T*', '*', '*ICH*', '*U*', '*?*', '0', '*EXP*', '*RNR*',
              # labels are compared as they are spelled
              '*t*', '*PRO*', '*pro*', '*Exp*']


def trace_tree(rng):
    pools = gen.Pools(cats=CATS, pos=['NN', 'VBD', 'DT', 'IN', 'WP', 'JJ'],
                      words=gen.WORDS_ASCII + (
                          # ordinary tokens that look like traces
                          ['*', '**', '*not*', '*T*-1', '0', '*U*']
                          if rng.random() < 0.4 else []))
    spec = base_tree(rng, pools, 18)
    toks = gen.tokens_of(spec['root'])
    tracemap = {}
    real = len(toks)
    for t in toks:
        if real > 1 and rng.random() < 0.3:
            cat = rng.choice(TRACE_CATS)
            co = rng.choice(['', '1', '2', '3', '10', '12', '104']) \
                if cat not in ('*U*', '*?*', '0') else ''
            gap = '4' if rng.random() < 0.05 else ''
            w = cat + ('=' + gap if gap else '') + ('-' + co if co else '')
            t['w'] = w
            t['p'] = '-NONE-'
            tracemap[w] = (cat, co)
            real -= 1
    labelmap = {}
    for n in gen.walk(spec['root']):
        if 'c' in n and n is not spec['root'] and rng.random() < 0.5:
            cat = n['l']
            gf = rng.choice(['', '', '-SBJ', '-TMP', '-LOC-CLR'])
            gap = rng.choice(['', '', '', '=1', '=2', '=12'])
            co = rng.choice(['', '', '-1', '-2', '-3', '-10', '-12', '-104'])
            lab = cat + gf + gap + co
            n['l'] = lab
            labelmap[lab] = (cat + gf, cat + gf + co)
    return spec, tracemap, labelmap


def tfile_for(rng, spec, with_pos, allow_dup=True):
    n = len(gen.tokens_of(spec['root']))
    sid = spec['sid']
    rows = []
    kinds = rng.sample(['valid', 'valid', 'zero', 'neg', 'len1', 'len2',
                        'far', 'foreign', 'valid'], rng.randint(1, 5))
    used = set()
    for k in kinds:
        idx = {'valid': rng.randint(1, n), 'zero': 0,
               'neg': -rng.randint(1, 3), 'len1': n + 1, 'len2': n + 2,
               'far': n + rng.randint(3, 90),
               'foreign': rng.randint(1, n)}[k]
        s = sid if k != 'foreign' else sid + rng.randint(1, 5)
        if (s, idx) in used:
            continue
        used.add((s, idx))
        row = [s, idx, rng.choice(['NEW', 'Haus', ',', '"', 'x1']),
               rng.choice(['XY', 'NN', '$,'])]
        if not with_pos and rng.random() < 0.5:
            row = row[:3]
        rows.append(row)
    if allow_dup and rows and rng.random() < 0.08:
        rows.append(list(rng.choice(rows)))
    rng.shuffle(rows)
    return rows


def shard(ctx):
    install(ctx.R)
    total = ctx.pick(9000, 1500000)
    for i in ctx.indices(total):
        rng = ctx.rng('case', i)
        op = rng.choice(['punctuation_delete', 'punctuation_delete',
                         'ptb_delete_traces', 'ptb_delete_traces',
                         'insert_terminals', 'insert_terminals',
                         'substitute_terminals', 'substitute_terminals',
                         'filter_by_length', 'delete_terminal'])
        case = {'kind': 'c11', 'op': op, 'params': {}}
        if op == 'punctuation_delete':
            pools = gen.Pools(p_punct=rng.choice([0.1, 0.3, 0.6, 1.0]))
            case['spec'] = base_tree(rng, pools)
            if rng.random() < 0.5:
                case['params']['quiet'] = True
        elif op == 'ptb_delete_traces':
            spec, tmap, lmap = trace_tree(rng)
            case.update(spec=spec, tracemap=tmap, labelmap=lmap)
            r = rng.random()
            if r < 0.25:
                case['params']['keepall'] = True
            elif r < 0.6:
                case['params']['keep'] = ','.join(
                    rng.sample(TRACE_CATS, rng.randint(1, 3)))
            if rng.random() < 0.35:
                case['params']['keepcoindex'] = True
            if rng.random() < 0.12:
                case['params']['slash'] = rng.choice([True, 'NP,WHNP'])
        elif op in ('insert_terminals', 'substitute_terminals'):
            case['spec'] = base_tree(rng, gen.Pools(
                pos=gen.POS + ['nn', 'Adj', 'pper', '$,']))
            case['tfile'] = tfile_for(rng, case['spec'],
                                      with_pos=op == 'insert_terminals')
            case['sep'] = rng.choice(['\t', ' ', '  '])
            if rng.random() < 0.5:
                case['params']['quiet'] = True
        elif op == 'filter_by_length':
            # the length is the number of terminals, whatever they are:
            # punctuation and traces count
            if rng.random() < 0.4:
                case['spec'] = trace_tree(rng)[0]
            else:
                case['spec'] = base_tree(rng, gen.Pools(
                    p_punct=rng.choice([0, 0.3])))
            case['params'] = {'filteroperator': rng.choice(['lt', 'gt', 'eq']),
                              'filtervalue': rng.randint(0, 12)}
        else:
            case['spec'] = base_tree(rng, gen.Pools())
            n = len(gen.tokens_of(case['spec']['root']))
            case['which'] = rng.randint(1, n)
        if rng.random() < 0.3:
            case['then'] = rng.choice(['punctuation_delete',
                                       'filter_by_length'])
            case['then_params'] = {'quiet': True} \
                if case['then'] == 'punctuation_delete' else \
                {'filteroperator': 'gt', 'filtervalue': rng.randint(0, 9)}
        run_case(ctx, case, rng)
        if i < 4:
            ctx.sample({'op': op, 'params': case['params'],
                        'tfile': case.get('tfile'),
                        'tree': model.show(model.from_spec(
                            case['spec']['root']), 'w')}, 4)
    # ---- inside sequences of other transformations (vt/pipeline.py) ----
    from . import pipeline
    pipeline.run(ctx, Cur, ('punctuation_delete',), 1500, 60000)



def replay(ctx, case):
    if case.get('kind') == 'pipeline':
        install(ctx.R)
        from . import pipeline
        pipeline.run_case(ctx, Cur, case, ctx.rng('replay'))
        return
    install(ctx.R)
    run_case(ctx, case, ctx.rng('replay'))

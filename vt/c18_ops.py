"""Operations of a C18 session.  An operation is plain data; execute() runs it
against the repository modules and returns a JSON-able output.  The same code
runs inside a long session (hooks on) and alone in a fresh process
(`python -m vt.c18_ops op.json`, no hooks), so outputs are comparable."""
import contextlib
import gzip
import hashlib
import io
import json
import os
import random
import runpy
import sys

from . import codec, model


def _name(tmp, text, suffix):
    h = hashlib.blake2b(text.encode('utf-8', 'surrogatepass'),
                        digest_size=8).hexdigest()
    return os.path.join(tmp, 'in_%s%s' % (h, suffix))


def _write(path, text, enc='utf-8'):
    with io.open(path, 'w', encoding=enc, newline='') as f:
        f.write(text)
    return path


def _input(tmp, part):
    """Write the input file of a reading operation and return its path.  With
    part['gz'] the file is gzip-compressed and lives in the sub-directory
    part['dir'] under the name part['name'] (so that two inputs can share a
    base name)."""
    if not part.get('gz'):
        return _write(_name(tmp, part['text'], '.' + part['fmt']), part['text'])
    d = os.path.join(tmp, part['dir'])
    os.makedirs(d, exist_ok=True)
    path = os.path.join(d, '%s.%s.gz' % (part['name'], part['fmt']))
    with gzip.open(path, 'wb') as f:
        f.write(part['text'].encode('utf-8'))
    return path


@contextlib.contextmanager
def _captured():
    out, err = io.StringIO(), io.StringIO()
    so, se = sys.stdout, sys.stderr
    sys.stdout, sys.stderr = out, err
    try:
        yield out, err
    finally:
        sys.stdout, sys.stderr = so, se


def _tree_out(t):
    defects, m = model.snapshot(t, expect_parent_none=False)
    if defects:
        return ['ILL-FORMED'] + defects[:2]
    return [t.data.get('sid'), repr(model.canon(m, 'wplmeh'))]


def files_of(op, tmp):
    """Paths an operation may legitimately open below tmp."""
    out = set()
    k = op['k']
    if k in ('read', 'cli', 'additive_cli'):
        pass
    return out


def _observe(R, what, t, sink):
    """Something that only looks at a tree: a writer (export, TIGER-XML,
    terminals), the export numbering, the analyses, grammar extraction, the
    transition oracles, the navigation functions, label formatting."""
    T = R.trees
    if what in ('export', 'tigerxml', 'terminals'):
        getattr(R.treeoutput, what)(t, sink)
    elif what == 'bracketstry':
        # an attempt to write the tree in bracket format (refused or skipped
        # when it is discontinuous).  The bracket writers replace bracket
        # characters in the node data, as documented: only for trees without
        # such characters is the attempt a mere look
        if not any(c in str(n.data.get(f) or '') for n in T.preorder(t)
                   for f in ('word', 'label', 'lemma', 'morph', 'edge')
                   for c in T.BRACKETS):
            for kw in ({}, {'brackets_skipdisco': True}):
                try:
                    R.treeoutput.brackets(t, sink, **kw)
                except ValueError:
                    pass
    elif what == 'numbering':
        R.treeoutput.compute_export_numbering(t)
    elif what == 'analysis':
        R.treeanalysis.gap_degree(t)
        for cls in R.treeanalysis.TASKS:
            inst = cls()
            inst.run(t)
    elif what == 'extract':
        R.grammar.extract(t, {}, {})
    elif what == 'transitions':
        for system in ('topdown', 'inorder', 'gap'):
            try:
                getattr(R.transitions, system)(t)
            except Exception:
                pass
    elif what == 'navigation':
        nodes = list(T.preorder(t))
        list(T.postorder(t))
        T.levels(t)
        for n in nodes:
            T.terminals(n)
            T.terminal_blocks(n)
            T.left_sibling(n)
            T.right_sibling(n)
            list(T.dominance(n))
            if T.has_children(n):
                T.children(n)
        for a in nodes[:6]:
            for b in nodes[-6:]:
                T.lca(a, b)
    elif what == 'labels':
        for n in T.preorder(t):
            for kw in ({}, {'gf': True}, {'gf': True, 'gf_separator': '='},
                       {'mark_heads_marking': True},
                       {'boyd_split_marking': True,
                        'boyd_split_numbering': True}):
                try:
                    T.get_label(n, **kw)
                except KeyError:
                    pass    # no head / split information on this tree
            T.parse_label(n.data['label'])
    else:
        raise ValueError('unknown observer %r' % what)


def execute(R, op, tmp, opened=None):
    """-> output (JSON-able).  `opened`, when given, receives the set of
    declared file paths of this operation."""
    k = op['k']
    declared = set()
    try:
        if k == 'read':
            path = _input(tmp, op)
            declared.add(path)
            out = []
            with _captured():
                for t in getattr(R.treeinput, op['fmt'])(path, 'utf-8',
                                                         **op['opts']):
                    out.append(_tree_out(t))
            return out
        if k == 'read2':
            gens = []
            for part in (op['a'], op['b']):
                path = _input(tmp, part)
                declared.add(path)
                gens.append(getattr(R.treeinput, part['fmt'])(
                    path, 'utf-8', **part['opts']))
            outs = [[], []]
            alive = [True, True]
            with _captured():
                while any(alive):
                    for i in (0, 1):
                        if alive[i]:
                            try:
                                outs[i].append(_tree_out(next(gens[i])))
                            except StopIteration:
                                alive[i] = False
            return outs
        if k == 'pipeline':
            # read treebank a completely, optionally read treebank b while
            # the trees of a are alive, then transform and write a
            path = _input(tmp, op['a'])
            declared.add(path)
            s = io.StringIO()
            with _captured():
                bank = getattr(R.treeinput, op['a']['fmt'])(
                    path, 'utf-8', **op['a']['opts'])
                if not op.get('stream'):
                    # the whole treebank in memory before anything is done
                    # to it; otherwise tree by tree as the reader yields
                    bank = list(bank)
                other = []
                if op.get('b'):
                    pb = _input(tmp, op['b'])
                    declared.add(pb)
                    other = list(getattr(R.treeinput, op['b']['fmt'])(
                        pb, 'utf-8', **op['b']['opts']))
                if op.get('prewrite'):
                    # every tree is written once before anything else is
                    # done to it (a preview, a backup): writing leaves no
                    # trace that a later step could see
                    bank = list(bank)
                    sink = io.StringIO()
                    for t in bank:
                        _observe(R, op['prewrite'], t, sink)
                for t in bank:
                    for name in op['names']:
                        t = getattr(R.transform, name)(t)
                    getattr(R.treeoutput, op['dfmt'])(t, s)
                s.write('|other|')
                for t in other:
                    R.treeoutput.export(t, s)
            return s.getvalue()
        if k == 'trans':
            rng = random.Random(op.get('shuffle', 0))
            live = model.build_live_tree(op['spec'], R.trees, rng)
            params = dict(op.get('params', {}))
            if 'tfile' in op:
                text = ''.join('\t'.join(str(x) for x in row) + '\n'
                               for row in op['tfile'])
                path = os.path.join(tmp, op['tname'])
                _write(path, text)
                declared.add(path)
                params['terminalfile'] = path
            with _captured() as (so, se):
                res = live
                for name in op['names']:
                    res = getattr(R.transform, name)(res, **params)
                    if res is None:
                        break
            printed = so.getvalue()
            if 'substitute_terminals' in op['names']:
                printed = ''        # prints its cache (file name inside)
            return [None if res is None else _tree_out(res), printed]
        if k == 'write':
            live = model.build_live_tree(op['spec'], R.trees,
                                         random.Random(op.get('shuffle', 0)))
            s = io.StringIO()
            with _captured():
                getattr(R.treeoutput, op['fmt'] + '_begin')(s, **op['opts'])
                getattr(R.treeoutput, op['fmt'])(live, s, **op['opts'])
                getattr(R.treeoutput, op['fmt'] + '_end')(s, **op['opts'])
            return s.getvalue()
        if k == 'write_many':
            # one params dict shared over several trees, as transform.run does
            s = io.StringIO()
            params = dict(op['opts'])
            with _captured():
                for spec in op['specs']:
                    live = model.build_live_tree(spec, R.trees,
                                                 random.Random(1))
                    getattr(R.treeoutput, op['fmt'])(live, s, **params)
            return s.getvalue()
        if k == 'grammar':
            g, lex = {}, {}
            for spec in op['bank']:
                live = model.build_live_tree(spec, R.trees, random.Random(2))
                R.grammar.extract(live, g, lex)
            if op.get('mode') is not None or op.get('reo'):
                fn = R.grammar.reordering_optimal if op.get('reo') == 'optimal' \
                    else R.grammar.reordering_none
                with _captured():
                    g = R.grammar.binarize(g, reordering=fn,
                                           markov_opts=dict(op['mode'])
                                           if op.get('mode') else None)
            prefix = os.path.join(tmp, 'g_%s' % op['tag'])
            with _captured():
                getattr(R.grammaroutput, op['fmt'])(g, lex, prefix, 'utf-8')
            out = {}
            for ext in ('pmcfg', 'rcg', 'lex', 'gram', 'start', 'oc', 'OC'):
                p = prefix + '.' + ext
                declared.add(p)
                if os.path.exists(p):
                    with io.open(p, encoding='utf-8') as f:
                        out[ext] = sorted(f.read().split('\n'))
                    os.remove(p)
            return out
        if k == 'analysis':
            inst = getattr(R.treeanalysis, op['task'])()
            for spec in op['bank']:
                inst.run(model.build_live_tree(spec, R.trees, random.Random(3)))
            with _captured() as (so, se):
                inst.done()
            return so.getvalue()
        if k == 'transitions':
            live = model.build_live_tree(op['spec'], R.trees, random.Random(4))
            with _captured():
                sent, seq = getattr(R.transitions, op['system'])(live)
            return [[list(x) for x in sent], [t.pretty_print() for t in seq]]
        if k == 'cli':
            src = _write(_name(tmp, op['text'], '.' + op['sfmt']), op['text'])
            dest = os.path.join(tmp, 'out_%s' % op['tag'])
            declared.update([src, dest])
            argv = [a.replace('{src}', src).replace('{dest}', dest)
                    for a in op['argv']]
            if op.get('reuse_args'):
                # a caller that drives the command from Python: the
                # arguments are parsed once and the command is run twice
                # with that object (here: the result of the second run)
                rc, printed = run_parsed_twice(R, argv, tmp, dest)
            else:
                rc, printed = run_cli(R, argv, True)
            outs = {}
            if op.get('stdout'):
                # the analyses print their result
                outs['<stdout>'] = printed
            for p in sorted(os.listdir(tmp)):
                full = os.path.join(tmp, p)
                if full == dest or full.startswith(dest + '.'):
                    declared.add(full)
                    with io.open(full, 'rb') as f:
                        data = f.read().decode('utf-8', 'replace')
                    key = p[len('out_%s' % op['tag']):]
                    outs[key] = sorted(data.split('\n')) if op.get('setlike') \
                        else data
                    os.remove(full)
            return [rc, outs]
        raise ValueError('unknown op kind %r' % k)
    except Exception as e:
        if k == 'trans' and 'tfile' in op:
            # a terminal file that is refused is refused every time; how (the
            # first time ValueError, later the missing table) is not output
            return ['EXCEPTION', 'refused']
        return ['EXCEPTION', type(e).__name__]
    finally:
        if opened is not None:
            opened.update(declared)


def run_cli(R, argv, want_stdout=False):
    """H7: the real command-line path in this process."""
    old = sys.argv
    sys.argv = [os.path.join(R.root, 'treetools')] + list(argv)
    try:
        with _captured() as (so, se):
            try:
                runpy.run_path(os.path.join(R.root, 'treetools'),
                               run_name='__main__')
                rc = 0
            except SystemExit as e:
                rc = e.code if e.code is not None else 0
        return (rc, so.getvalue()) if want_stdout else rc
    finally:
        sys.argv = old


def run_parsed_twice(R, argv, tmp, dest):
    import argparse
    parser = argparse.ArgumentParser()
    sub = parser.add_subparsers(dest='subparser_name')
    for mod in (R.transform, R.treeanalysis, R.grammar, R.transitions):
        mod.add_parser(sub)
    rc, printed = 0, ''
    with _captured():
        try:
            args = parser.parse_args(list(argv))
        except SystemExit as e:
            return (e.code if e.code is not None else 0), ''
    for turn in (1, 2):
        if turn == 2:
            for p in os.listdir(tmp):
                full = os.path.join(tmp, p)
                if full == dest or full.startswith(dest + '.'):
                    os.remove(full)
        with _captured() as (so, se):
            try:
                args.func(args)
                rc = 0
            except SystemExit as e:
                rc = e.code if e.code is not None else 0
        printed = so.getvalue()
    return rc, printed


def main():
    """fresh-process reference: python -m vt.c18_ops OPFILE TMP"""
    from . import repo
    with open(sys.argv[1]) as f:
        op = json.load(f)
    R = repo.load()
    out = execute(R, op, sys.argv[2])
    sys.stdout.write(json.dumps(out, sort_keys=True))


if __name__ == '__main__':
    main()

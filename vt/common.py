"""Helpers shared by the oracles."""
import contextlib
import io
import os
import subprocess
import sys

from . import model, repo


def cli(args, timeout=120, env=None, cwd=None, hashseed=None):
    """Run the real command line, un-instrumented, in a fresh process."""
    e = dict(os.environ)
    e.pop('TREETOOLS_VERIF', None)
    e['PYTHONDONTWRITEBYTECODE'] = '1'
    e['PYTHONIOENCODING'] = 'utf-8'
    if hashseed is not None:
        e['PYTHONHASHSEED'] = str(hashseed)
    if env:
        e.update(env)
    # the script directory becomes sys.path[0], so `import trees` resolves to
    # the working tree under test
    e.pop('PYTHONPATH', None)
    try:
        p = subprocess.run([repo.PYTHON, repo.CLI] + list(args),
                           stdout=subprocess.PIPE, stderr=subprocess.PIPE,
                           timeout=timeout, env=e, cwd=cwd)
    except subprocess.TimeoutExpired:
        return None, '', 'TIMEOUT after %ss' % timeout
    return (p.returncode, p.stdout.decode('utf-8', 'replace'),
            p.stderr.decode('utf-8', 'replace'))


@contextlib.contextmanager
def captured():
    """Capture what is printed to sys.stdout / sys.stderr in-process."""
    out, err = io.StringIO(), io.StringIO()
    so, se = sys.stdout, sys.stderr
    sys.stdout, sys.stderr = out, err
    try:
        yield out, err
    finally:
        sys.stdout, sys.stderr = so, se


def live_tree(ctx, spec, rng=None, style='export'):
    return model.build_live_tree(spec, ctx.R.trees, rng, style)


def write(path, text, encoding='utf-8'):
    with io.open(path, 'w', encoding=encoding, newline='') as f:
        f.write(text)
    return path


def read(path, encoding='utf-8'):
    with io.open(path, encoding=encoding, newline='') as f:
        return f.read()


def tail(s, n=400):
    s = s or ''
    return s[-n:]

"""Helpers shared by the oracles."""
import contextlib
import io
import os
import subprocess
import sys

from . import model, repo


ENVIRONMENTS = __import__('collections').Counter()


def cli(args, timeout=120, env=None, cwd=None, hashseed=None):
    """Run the real command line, un-instrumented, in a fresh process."""
    e = dict(os.environ)
    e.pop('TREETOOLS_VERIF', None)
    e['PYTHONDONTWRITEBYTECODE'] = '1'
    e['PYTHONIOENCODING'] = 'utf-8'
    # what is not part of the input varies from call to call (decided by the
    # arguments that are not paths, so that a replay meets the same
    # environment): the hash seed, the locale of the process (a plain C locale
    # without UTF-8 mode: open() without an encoding would mean ASCII), and
    # whether the files are named by absolute paths or relative to the
    # working directory
    import zlib
    args = list(args)
    h = zlib.crc32(' '.join(a for a in args if not a.startswith('/'))
                   .encode('utf-8'))
    if (h // 3) % 2 == 0:
        # utf-8 is the documented default of --src-enc and --dest-enc: in
        # half of the runs it is left to the default
        for opt in ('--src-enc', '--dest-enc'):
            if opt in args and args[args.index(opt) + 1:args.index(opt) + 2] \
                    == ['utf-8']:
                k = args.index(opt)
                del args[k:k + 2]
                ENVIRONMENTS['an encoding left to the default'] += 1
    if hashseed is None:
        hashseed = (0, 1, 2, 3, 4711)[h % 5]
    e['PYTHONHASHSEED'] = str(hashseed)
    if (h // 5) % 4 == 0:
        e.update(LC_ALL='C', LANG='C', PYTHONCOERCECLOCALE='0',
                 PYTHONUTF8='0')
        ENVIRONMENTS['C locale without UTF-8 mode'] += 1
        if (h // 80) % 2 == 0:
            # ... and standard streams that can carry ASCII only
            del e['PYTHONIOENCODING']
            ENVIRONMENTS['ASCII-only standard streams'] += 1
    paths = [a for a in args if a.startswith('/')]
    dirs = set(os.path.dirname(a) for a in paths)
    if cwd is None and len(dirs) == 1 and (h // 20) % 3 == 0:
        cwd = dirs.pop()
        args = [os.path.basename(a) if a.startswith('/') else a
                for a in args]
        ENVIRONMENTS['relative paths'] += 1
    ENVIRONMENTS['hash seed %s' % hashseed] += 1
    if env:
        e.update(env)
    # the script directory becomes sys.path[0], so `import trees` resolves to
    # the working tree under test
    e.pop('PYTHONPATH', None)
    try:
        p = subprocess.run([repo.PYTHON, repo.CLI] + list(args),
                           stdout=subprocess.PIPE, stderr=subprocess.PIPE,
                           timeout=timeout, env=e, cwd=cwd)
    except subprocess.TimeoutExpired:
        return None, '', 'TIMEOUT after %ss' % timeout
    return (p.returncode, p.stdout.decode('utf-8', 'replace'),
            p.stderr.decode('utf-8', 'replace'))


@contextlib.contextmanager
def captured():
    """Capture what is printed to sys.stdout / sys.stderr in-process."""
    out, err = io.StringIO(), io.StringIO()
    so, se = sys.stdout, sys.stderr
    sys.stdout, sys.stderr = out, err
    try:
        yield out, err
    finally:
        sys.stdout, sys.stderr = so, se


VIA_READER = 0.12
DEEP_COPY = 0.06


def live_tree(ctx, spec, rng=None, style='export', via=None):
    """The live tree for a spec: built through the Tree API (child lists in
    random order) or - in about one case of eight - by the repository's own
    reader from a file that an independent encoder wrote, as in a real run.
    A reader-built tree is used only if a raw walk of it gives the spec back;
    head marks and other node attributes of the spec are then copied on."""
    if rng is not None and ctx is not None and VIA_READER:
        import random as _random
        r = _random.Random(rng.random())    # own stream: callers' draws stay
        if r.random() < (VIA_READER if via is None else via):
            live = _via_reader(ctx, spec, r)
            if live is not None:
                ctx.stratum('live tree built by a reader')
                return live
        if r.random() < DEEP_COPY:
            # a deep copy of the tree, the original thrown away (how callers
            # keep a tree while the transformations work in place)
            import copy
            import gc
            live = model.build_live_tree(spec, ctx.R.trees, rng, style)
            twin = copy.deepcopy(live)
            del live
            gc.collect()
            ctx.stratum('live tree is a deep copy')
            return twin
    return model.build_live_tree(spec, ctx.R.trees, rng, style)


def _via_reader(ctx, spec, r):
    from . import codec
    R = ctx.R
    want = model.from_spec(spec['root'])
    fmt = r.choice(['export', 'export', 'tigerxml'])
    opts = {'quiet': True}
    if r.random() < 0.5:
        opts['gf_split'] = True
    try:
        if fmt == 'export':
            v4 = any(t.lemma not in (None, '--') for t in want.toks())
            text = codec.export_encode([spec], v4=v4)
        else:
            text = codec.tigerxml_encode([spec], r if r.random() < 0.5
                                         else None)
        path = write(ctx.path('.via.' + fmt), text)
        with captured():
            got = list(getattr(R.treeinput, fmt)(path, 'utf-8', **opts))
        os.remove(path)
        if len(got) != 1:
            return None
        live = got[0]
        defects, have = model.snapshot(live)
        # with gf_split the function comes from the label, not from the edge
        # field of the file: edges are put back from the spec below
        fields = 'wplm' if 'gf_split' in opts else 'wplme'
        if defects or model.canon(have, fields) != model.canon(want, fields):
            return None
    except Exception:
        return None

    def copy_on(m_spec, m_live):
        node = m_live.ref
        if m_spec.head is not None:
            node.data['head'] = m_spec.head
        for k, v in m_spec.attrs.items():
            node.data[k] = v
        if 'gf_split' in opts and m_spec.parent is not None:
            node.data['edge'] = m_spec.edge
        for a, b in zip(m_spec.kids(), m_live.kids()):
            copy_on(a, b)
    copy_on(want, have)
    live.data['sid'] = spec['sid']
    return live


def write(path, text, encoding='utf-8'):
    with io.open(path, 'w', encoding=encoding, newline='') as f:
        f.write(text)
    return path


def preexisting(ctx, path, rng, p=0.3):
    """In some cases the destination of a writer exists already and is longer
    than what will be written (an earlier run): it has to be replaced."""
    if rng.random() < p:
        with io.open(path, 'w', encoding='utf-8') as f:
            f.write(u'(ALT (ES zeug))\n#BOS 9999\n' * rng.randint(50, 4000))
        ctx.stratum('destination file existed before')
    return path


def read(path, encoding='utf-8'):
    with io.open(path, encoding=encoding, newline='') as f:
        return f.read()


def tail(s, n=400):
    s = s or ''
    return s[-n:]

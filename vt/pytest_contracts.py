"""pytest plugin: run the repository's own test-suite with the self-contained
contracts installed (DESIGN 8.3).

    cd /repo && TREETOOLS_VERIF=1 PYTHONPATH=/verif /venv/bin/python -m pytest \
        -q -p no:cacheprovider -p vt.pytest_contracts

A contract that fires here is either too strict or a defect the tests do not
assert.  The summary is printed at the end of the session; a firing contract
makes the session fail."""
import os
import tempfile

os.environ.setdefault('TREETOOLS_VERIF', '1')

ORACLES = ['c04', 'c05', 'c06', 'c07', 'c10', 'c12', 'c13', 'c14', 'c15',
           'c17', 'c20']
_ctxs = []


def pytest_configure(config):
    import importlib
    from vt import repo, runner
    R = repo.load()
    tmp = tempfile.mkdtemp(prefix='vt_pytest_')
    for name in ORACLES:
        mod = importlib.import_module('vt.oracle_' + name)
        ctx = runner.Ctx(name.upper(), 'quick', 0, 0, 1, tmp)
        ctx.R = R
        cur = getattr(mod, 'Cur', None)
        if cur is not None:
            cur.ctx = ctx
            if hasattr(cur, 'case'):
                cur.case = {'kind': 'pytest'}
            if hasattr(cur, 'spec'):
                cur.spec = None
        mod.install(R)
        _ctxs.append((name, ctx))


def pytest_sessionfinish(session, exitstatus):
    from vt import contracts
    tr = session.config.pluginmanager.get_plugin('terminalreporter')
    lines = []
    bad = 0
    for name, ctx in _ctxs:
        for mech, n in sorted(ctx.fail_counts.items()):
            bad += n
            lines.append('CONTRACT FIRED %s x%d' % (mech, n))
        for f in ctx.failures[:3]:
            lines.append('   e.g. %s' % str(f['detail'])[:300])
    fired = sum(contracts.COUNTS.values())
    lines.append('contracts evaluated %d times under the test-suite; %d '
                 'violations; %d monitor errors'
                 % (fired, bad, len(contracts.ORACLE_ERRORS)))
    for e in contracts.ORACLE_ERRORS[:3]:
        lines.append('MONITOR ERROR ' + e[-600:])
    for ln in lines:
        if tr is not None:
            tr.write_line(ln)
        else:
            print(ln)
    if bad or contracts.ORACLE_ERRORS:
        session.exitstatus = 1

"""C19 -- tree navigation API vs the set-based model (DESIGN 5/C19).

Contracts are attached to the real trees.children / terminals / preorder /
postorder / left_sibling / right_sibling / lca / dominance / levels and
treeoutput.compute_export_numbering.  Every evaluation -- also the internal
ones the repository makes itself (preorder calls children, ...) -- is compared
with the model of the tree currently under test."""
from . import common, contracts, gen, model, probe

PROPERTY = 'C19'
LEVEL = 'exploration'
RULE = ('trees are built through the Tree API from specs with child lists '
        'stored in random order: complete sweep of all unordered tree shapes '
        'over token sets 1..n (any token-to-leaf assignment, i.e. incl. '
        'discontinuous ones, plus up to one/two unary nodes anywhere) and '
        'random trees up to 40 tokens; a case is non-trivial when the tree has '
        '>= 3 tokens and >= 2 constituents; distinct = distinct canonical '
        'spec (structure + token numbers)')
ASSUMPTIONS = ['model.MN (set-based tree model written for this check) is '
               'the reference', 'lca/sibling pairs are sampled (<= 400 pairs) '
               'for trees with more than 12 nodes']
WATCHDOG = {'quick': 600, 'thorough': 3600}
LONG_SENTENCES = 3      # floor for the stratum the runner adds (gen.maybe_long)
MIN = {'quick': {'distinct': 300, 'strata': {'after in-place change': 300,
                                           'deep copy with nodes added': 200,
                                           'after a transformation of the same tree': 200},
                 'hooks': {'trees.children': 1000, 'trees.terminals': 1000,
                           'trees.preorder': 300, 'trees.postorder': 300,
                           'trees.lca': 1000, 'trees.left_sibling': 500,
                           'trees.right_sibling': 500, 'trees.dominance': 500,
                           'trees.levels': 300,
                           'treeoutput.compute_export_numbering': 300}},
       'thorough': {'distinct': 20000,
                    'hooks': {'trees.lca': 100000, 'trees.levels': 20000}}}


class Cur(object):
    ctx = None
    spec = None
    by_id = {}
    root = None


def _m(live):
    return Cur.by_id.get(id(live))


def _fail(what, detail):
    root = Cur.root if Cur.root is not None \
        else model.from_spec(Cur.spec['root'])
    Cur.ctx.fail('C19:' + what, {'kind': 'tree', 'spec': Cur.spec},
                 detail + ' | tree ' + model.show(root, 'wp'))


def _labels(lives):
    return [None if x is None else (x.data.get('label'), x.data.get('num'))
            for x in lives]


# ---- conditions ----------------------------------------------------------------

def post_children(old, result, exc, args, kw):
    m = _m(args[0])
    if m is None:
        return
    if exc is not None:
        # a token has no ordered children; anything else must not raise
        _fail('children-raises', 'children(%s) raised %r' % (m.label, exc))
        return
    exp = [k.ref for k in m.kids()]
    if len(result) != len(exp) or any(a is not b for a, b in zip(result, exp)):
        _fail('children-order', 'children(%s) = %s, expected %s'
              % (m.label, _labels(result), _labels(exp)))


def post_terminals(old, result, exc, args, kw):
    m = _m(args[0])
    if m is None:
        return
    if exc is not None:
        _fail('terminals-raises', 'terminals(%s) raised %r' % (m.label, exc))
        return
    exp = [t.ref for t in m.toks()]
    if len(result) != len(exp) or any(a is not b for a, b in zip(result, exp)):
        _fail('terminals', 'terminals(%s) = %s, expected %s'
              % (m.label, _labels(result), _labels(exp)))


def _check_traversal(name, items, exc, args, pre):
    m = _m(args[0])
    if m is None or isinstance(exc, GeneratorExit):
        return
    if exc is not None:
        _fail(name + '-raises', '%s(%s) raised %r' % (name, m.label, exc))
        return
    exp_nodes = m.nodes()
    if sorted(id(x) for x in items) != sorted(id(n.ref) for n in exp_nodes):
        _fail(name + '-nodeset', '%s(%s) visited %s, the subtree has %s'
              % (name, m.label, _labels(items),
                 _labels([n.ref for n in exp_nodes])))
        return
    pos = {id(x): i for i, x in enumerate(items)}
    for n in exp_nodes:
        if n is m:
            continue
        a, d = pos[id(n.parent.ref)], pos[id(n.ref)]
        if (a > d) if pre else (a < d):
            _fail(name + '-order', '%s(%s): %s visited on the wrong side of '
                  'its parent %s' % (name, m.label, n.label, n.parent.label))
            return


def post_preorder(items, exc, args, kw):
    _check_traversal('preorder', items, exc, args, True)


def post_postorder(items, exc, args, kw):
    _check_traversal('postorder', items, exc, args, False)


def post_dominance(items, exc, args, kw):
    m = _m(args[0])
    if m is None or isinstance(exc, GeneratorExit):
        return
    if exc is not None:
        _fail('dominance-raises', 'dominance raised %r' % (exc,))
        return
    exp = [a.ref for a in m.ancestors()]
    if len(items) != len(exp) or any(a is not b for a, b in zip(items, exp)):
        _fail('dominance', 'dominance(%s) = %s, expected %s'
              % (m.label, _labels(items), _labels(exp)))


def _sibling(m, delta):
    if m.parent is None:
        return None
    ks = m.parent.kids()
    i = [j for j, k in enumerate(ks) if k is m][0] + delta
    return ks[i].ref if 0 <= i < len(ks) else None


def post_left(old, result, exc, args, kw):
    m = _m(args[0])
    if m is None:
        return
    if exc is not None:
        _fail('left_sibling-raises', 'raised %r' % (exc,))
        return
    exp = _sibling(m, -1)
    if result is not exp:
        _fail('left_sibling', 'left_sibling(%s) = %s, expected %s'
              % ((m.label, m.num), _labels([result]), _labels([exp])))


def post_right(old, result, exc, args, kw):
    m = _m(args[0])
    if m is None:
        return
    if exc is not None:
        _fail('right_sibling-raises', 'raised %r' % (exc,))
        return
    exp = _sibling(m, +1)
    if result is not exp:
        _fail('right_sibling', 'right_sibling(%s) = %s, expected %s'
              % ((m.label, m.num), _labels([result]), _labels([exp])))


def post_lca(old, result, exc, args, kw):
    a, b = _m(args[0]), _m(args[1])
    if a is None or b is None:
        return
    if exc is not None:
        _fail('lca-raises', 'lca raised %r' % (exc,))
        return
    if a.dominates(b) or b.dominates(a):
        exp = None
    else:
        anc_b = set(id(x) for x in b.ancestors())
        exp = [x for x in a.ancestors() if id(x) in anc_b][0].ref
    if result is not exp:
        _fail('lca', 'lca(%s,%s) = %s, expected %s'
              % ((a.label, a.num), (b.label, b.num), _labels([result]),
                 _labels([exp])))


def post_levels(old, result, exc, args, kw):
    m = _m(args[0])
    if m is None:
        return
    if exc is not None:
        _fail('levels-raises', 'levels raised %r' % (exc,))
        return
    levels, reverse = result
    cons = [n for n in m.nodes() if n.children]
    if len(reverse) != len(cons):
        _fail('levels-domain', 'levels reports %d nodes, tree has %d '
              'constituents' % (len(reverse), len(cons)))
        return
    for n in cons:
        if reverse.get(n.ref) != n.height():
            _fail('levels-height', 'level of %s is %r, longest path to a '
                  'token is %d' % (n.label, reverse.get(n.ref), n.height()))
            return
    for lev, nodes in levels.items():
        exp = sorted(id(n.ref) for n in cons if n.height() == lev)
        if sorted(id(x) for x in nodes) != exp:
            _fail('levels-groups', 'levels[%r] has %d nodes, expected %d'
                  % (lev, len(nodes), len(exp)))
            return
    if sum(len(v) for v in levels.values()) != len(cons):
        _fail('levels-groups', 'levels lists do not partition the '
              'constituents')


def pre_numbering(args, kw):
    m = _m(args[0])
    if m is None:
        return None
    return [(t.ref, t.ref.data.get('num')) for t in m.toks()]


def post_numbering(old, result, exc, args, kw):
    m = _m(args[0])
    if m is None or m.parent is not None:
        return
    if exc is not None:
        _fail('numbering-raises', 'compute_export_numbering raised %r' % (exc,))
        return
    for live, num in old:
        if live.data.get('num') != num:
            _fail('numbering-token', 'token number changed %r -> %r'
                  % (num, live.data.get('num')))
            return
    cons = [n for n in m.nodes() if n.children and n is not m]
    if m.ref.data.get('num') != 0:
        _fail('numbering-root', 'root numbered %r' % (m.ref.data.get('num'),))
    got = sorted(n.ref.data.get('num') for n in cons)
    if got != list(range(500, 500 + len(cons))):
        _fail('numbering-bijection', 'constituent numbers %r are not 500..%d'
              % (got[:20], 499 + len(cons)))
        return
    for n in cons:
        if n.parent is not m and \
                n.parent.ref.data['num'] <= n.ref.data['num']:
            _fail('numbering-parent', '%s (#%d) is not numbered below its '
                  'parent %s (#%d)' % (n.label, n.ref.data['num'],
                                       n.parent.label,
                                       n.parent.ref.data['num']))
            return
    # left to right within a level; lower levels first
    order = sorted(cons, key=lambda n: n.ref.data['num'])
    for a, b in zip(order, order[1:]):
        ha, hb = a.height(), b.height()
        if ha > hb or (ha == hb and a.first() > b.first()):
            _fail('numbering-level-order', '#%d %s (height %d, first token '
                  '%d) precedes #%d %s (height %d, first token %d)'
                  % (a.ref.data['num'], a.label, ha, a.first(),
                     b.ref.data['num'], b.label, hb, b.first()))
            return


def install(R):
    T = R.trees
    contracts.attach(T, 'children', None, post_children)
    contracts.attach(T, 'terminals', None, post_terminals)
    contracts.attach_gen(T, 'preorder', post_preorder)
    contracts.attach_gen(T, 'postorder', post_postorder)
    contracts.attach_gen(T, 'dominance', post_dominance)
    contracts.attach(T, 'left_sibling', None, post_left)
    contracts.attach(T, 'right_sibling', None, post_right)
    contracts.attach(T, 'lca', None, post_lca)
    contracts.attach(T, 'levels', None, post_levels)
    contracts.attach(R.treeoutput, 'compute_export_numbering', pre_numbering,
                     post_numbering)


def mutate_in_place(m, rng):
    """Move one node to another constituent through the raw attributes
    (children / parent), keeping the tree well formed.  Returns True when
    something was moved."""
    nodes = m.nodes()
    cands = [n for n in nodes if n.parent is not None
             and len(n.parent.children) > 1]
    rng.shuffle(cands)
    for x in cands:
        below = set(id(y) for y in x.nodes())
        targets = [p for p in nodes if p.children and id(p) not in below
                   and p is not x.parent]
        if not targets:
            continue
        p = rng.choice(targets)
        x.ref.parent.children.remove(x.ref)
        p.ref.children.append(x.ref)
        x.ref.parent = p.ref
        return True
    return False


def run_tree(ctx, spec, rng, again=True):
    R = ctx.R
    T = R.trees
    live = model.build_live_tree(spec, T, rng)
    evaluate(ctx, spec, live, rng)
    if again and rng.random() < 0.3:
        # the same node objects after an in-place change: nothing computed for
        # the old shape may survive
        defects, m = model.snapshot(live)
        if mutate_in_place(m, rng):
            evaluate(ctx, spec, live, rng, tag='after in-place change')
    if again and rng.random() < 0.25:
        # the tree after the repository's own transformations worked on it in
        # place - after everything above (levels, numbering, navigation) has
        # been computed for the old shape
        tr = R.transform
        names = rng.choice([['collapse_unary_chains'], ['add_topnode'],
                            ['collapse_unary_chains',
                             'uncollapse_unary_chains'],
                            ['root_attach'], ['negra_mark_heads', 'binarize'],
                            ['root_attach', 'negra_mark_heads', 'boyd_split',
                             'raising'], ['punctuation_delete']])
        # the model of the old shape says nothing about calls the
        # transformations make while the tree is being rebuilt
        Cur.root, Cur.by_id = None, {}
        ntok = len(gen.tokens_of(spec['root']))
        with common.captured():
            try:
                with probe.step_budget(3000000 * max(1, ntok // 20) ** 3):
                    for name in names:
                        live = getattr(tr, name)(live)
            except (Exception, probe.StepBudgetExceeded):
                live = None     # judged where the transformations are the subject
        if live is not None and not live.children:
            # a one-token sentence collapsed into a bare token: not a tree
            # with a root constituent any more (the shape is left unjudged
            # throughout, see ASSUMPTIONS of C01)
            live = None
        if live is not None:
            defects, m = model.snapshot(live)
            if not defects:
                evaluate(ctx, spec, live, rng,
                         tag='after a transformation of the same tree')
            m = None
        else:
            live = model.build_live_tree(spec, T, rng)
    if again and rng.random() < 0.2:
        # a deep copy of the tree (how a caller keeps a tree, since the
        # transformations work in place), the original released, and nodes
        # created afterwards put into the copy
        import copy
        import gc
        try:
            with probe.step_budget(20000000):
                twin = copy.deepcopy(live)
        except probe.StepBudgetExceeded:
            ctx.stratum('deep copy given up (step budget)')
            return
        del live
        m = defects = None
        Cur.root, Cur.by_id = None, {}
        gc.collect()
        defects, m = model.snapshot(twin)
        if defects:
            Cur.ctx, Cur.spec = ctx, spec
            _fail('copy-of-tree-ill-formed', 'copy.deepcopy of a well-formed '
                  'tree: %r' % (defects[:3],))
            return
        nodes = m.nodes()
        for k in range(rng.randint(1, 4)):
            x = rng.choice(nodes).ref
            new = T.Tree(T.make_node_data())
            new.data.update(label='NEU%d' % k, edge='--', head=False)
            parent = x.parent
            if parent is not None:
                parent.children[[c is x for c in parent.children]
                                .index(True)] = new
            else:
                twin = new
            new.parent = parent
            new.children = [x]
            x.parent = new
        evaluate(ctx, spec, twin, rng, tag='deep copy with nodes added')


def evaluate(ctx, spec, live, rng, tag=None):
    R = ctx.R
    T = R.trees
    defects, m = model.snapshot(live)
    if defects:
        raise RuntimeError('generator produced ill-formed tree: %r' % defects)
    Cur.ctx, Cur.spec, Cur.root = ctx, spec, m
    Cur.by_id = {id(n.ref): n for n in m.nodes()}
    nodes = m.nodes()
    guard = lambda f, *a: _guard(f, *a)
    for n in nodes:
        if n.children:
            guard(T.children, n.ref)
        guard(T.terminals, n.ref)
        guard(lambda x: list(T.preorder(x)), n.ref)
        guard(lambda x: list(T.postorder(x)), n.ref)
        guard(lambda x: list(T.dominance(x)), n.ref)
        guard(T.left_sibling, n.ref)
        guard(T.right_sibling, n.ref)
    # sibling functions are mutually inverse (direct, in addition to the model)
    for n in nodes:
        r = _guard(T.right_sibling, n.ref)
        if r is not None and _guard(T.left_sibling, r) is not n.ref:
            _fail('sibling-inverse', 'left(right(%s)) is not %s'
                  % (n.label, n.label))
    pairs = [(a, b) for a in nodes for b in nodes]
    if len(nodes) > 12:
        pairs = [pairs[rng.randrange(len(pairs))] for _ in range(400)]
    for a, b in pairs:
        guard(T.lca, a.ref, b.ref)
    guard(T.levels, live)
    # ... and of a constituent inside the tree: only what is below it counts
    inner = [n for n in nodes if n.children and n.ref is not live]
    for n in (inner if len(inner) <= 3 else rng.sample(inner, 3)):
        guard(T.levels, n.ref)
        ctx.stratum('levels of an inner constituent')
    guard(R.treeoutput.compute_export_numbering, live)
    # the numbering leaves node numbers on the constituents: the navigation
    # functions are not to be impressed by them
    for n in nodes[:40]:
        if n.children:
            guard(T.children, n.ref)
        guard(T.left_sibling, n.ref)
        guard(T.right_sibling, n.ref)
    ctx.stratum('navigation after the export numbering')
    ncons = len([n for n in nodes if n.children])
    ntok = len(m.toks())
    ctx.case(model.canon(m, 'p'), nontrivial=ntok >= 3 and ncons >= 2)
    if tag:
        ctx.stratum(tag)
    ctx.stratum('gapdeg=%d' % min(model.gapdeg(m), 3))
    ctx.stratum('tokens<=5' if ntok <= 5 else 'tokens<=12' if ntok <= 12
                else 'tokens>12')
    if ntok >= 4:
        ctx.sample({'tree': model.show(m, 'wp'), 'nodes': len(nodes)})


def _guard(f, *a):
    """The API must not raise on a well-formed tree; exceptions are recorded by
    the contract's exceptional exit and swallowed here."""
    try:
        return f(*a)
    except Exception:
        return None


def shard(ctx):
    install(ctx.R)
    pools = gen.Pools()
    # ---- complete sweep of small shapes ------------------------------------
    nmax = ctx.pick(5, 7)
    unary = ctx.pick(1, 2)
    i = 0
    swept = {}
    for n in range(1, nmax + 1):
        u = unary if n <= 5 else (1 if n == 6 else 0)
        cnt = 0
        for shape, used in gen.all_shapes(list(range(1, n + 1)), u):
            cnt += 1
            i += 1
            if not ctx.mine(i):
                continue
            rng = ctx.rng('sweep', i)
            spec = gen.shape_to_spec(shape, rng, pools)
            run_tree(ctx, spec, rng)
            ctx.stratum('sweep')
        swept['n=%d,unary<=%d' % (n, u)] = cnt
    if ctx.shard == 0:
        for k, v in swept.items():
            ctx.sum('sweep_shapes[%s]' % k, v)
    # ---- random larger trees --------------------------------------------------
    total = ctx.pick(1500, 60000)
    for i in ctx.indices(total):
        rng = ctx.rng('rand', i)
        n = rng.choice([3, 5, 8, 12, 20, 30, 40]) if rng.random() < 0.5 \
            else rng.randint(1, 40)
        n = gen.maybe_long(rng, n, 0.01)
        spec = gen.tree(rng, n, pools, max_arity=rng.choice([2, 3, 5, 8]),
                        p_unary=rng.choice([0, 0.1, 0.3]),
                        moves=rng.choice([0, 0, 1, 2, 4, 8]),
                        p_root_unary=rng.choice([0, 0.3]))
        gen.spice(rng, spec, ['cat-keyword', 'cat-apostrophe', 'pos-apostrophe', 'cat-digit-first', 'cat-at-x', 'cat-punct-char', 'pos-punct-char', 'pos-decorated', 'word-unicode', 'word-typographic-punct', 'word-keyword', 'word-unispace', 'word-percent', 'cat-decorated', 'cat-digit-last', 'edge-odd', 'pos-keyword'],
                  root_labels=['TOP', 'ROOT', 'S', 'VROOT+S'])
        run_tree(ctx, spec, rng)
        ctx.stratum('random')


def replay(ctx, case):
    install(ctx.R)
    run_tree(ctx, case['spec'], ctx.rng('replay'))


def evidence_extra(tier, m):
    return {'exhaustive': False,
            'sweeps': 'all unordered shapes over tokens 1..n, n <= %d'
            % (5 if tier == 'quick' else 7)}

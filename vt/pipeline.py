"""A workload shared by the transformation properties: the function under
judgement is not called on a freshly built tree but somewhere inside a random,
prerequisite-respecting sequence of other structural transformations on the
same live tree (the sequences of C04).  Only the calling oracle's contracts are
installed, so every call of *its* functions is judged in whatever state the
earlier steps left the tree - stale marks, re-attached nodes, node-level
caches.  All contracts of these oracles are relative to a raw snapshot taken
at call time, so nothing is assumed about the history."""
from . import common, gen, probe

STEPS = 3000000


def draw(rng, focus, maxlen):
    """A sequence of C04 in which a focus step is preceded by at least one
    other step.  In a third of the sequences a token-editing step
    (punctuation_delete) is put somewhere before the end as well: it changes
    the sentence, which no contract of the calling oracles assumes fixed.
    When the focus itself is punctuation_delete it is inserted after at least
    one structural step."""
    from . import oracle_c04
    edit_focus = 'punctuation_delete' in focus
    if 'punctuation_verylow' in focus and rng.random() < 0.2:
        # a punctuation step, a correction of the tokens by hand (a token that
        # was taken for punctuation gets its word and tag), the step again
        step = rng.choice(['punctuation_verylow', 'punctuation_verylow',
                           'punctuation_root', 'punctuation_symetrify'])
        seq = [[step, {}], ['_edit_word', {'k': rng.randrange(1000)}],
               [step, {}]]
        if rng.random() < 0.5:
            seq.insert(0, ['root_attach', {}])
        if rng.random() < 0.3:
            seq.insert(len(seq) - 1, ['root_attach', {}])
        return seq
    for _ in range(40):
        seq = oracle_c04.draw_sequence(rng, maxlen)
        if edit_focus or rng.random() < 0.33:
            # not between boyd_split and raising / collapse and uncollapse
            ok = [k for k in range(1 if edit_focus else 0, len(seq) + 1)
                  if not (k > 0 and seq[k - 1][0] in ('boyd_split',
                                                      'collapse_unary_chains'))]
            if ok:
                at = rng.choice(ok)
                seq.insert(at, ['punctuation_delete', {}])
                if edit_focus and at >= 2 and rng.random() < 0.5:
                    # the caller removed a token by hand (trees.delete_terminal)
                    # earlier on, at least one other step lies in between
                    seq.insert(rng.randrange(0, at - 1),
                               ['_delete_token', {'k': rng.randrange(1000)}])
        if any(step in focus for step, _ in seq[1:]):
            return seq
    return None


LOOKS = ('export', 'tigerxml', 'terminals', 'numbering', 'analysis',
         'extract', 'navigation', 'labels', 'bracketstry')


def look(R, what, live):
    import io
    from . import c18_ops
    try:
        c18_ops._observe(R, what, live, io.StringIO())
    except Exception:
        pass        # judged where that function is the subject


def draw_looks(rng, seq, p=0.3):
    if rng.random() >= p:
        return None
    return [[k, rng.choice(LOOKS)] for k in range(len(seq))
            if rng.random() < 0.5] or [[0, rng.choice(LOOKS)]]


def run_case(ctx, cur, case, rng):
    cur.ctx, cur.case = ctx, case
    if hasattr(cur, 'spec'):
        cur.spec = case['spec']
    for a in ('pre_split', 'pre_collapse'):
        if hasattr(cur, a):
            setattr(cur, a, None)
    tr = ctx.R.transform
    live = common.live_tree(ctx, case['spec'], rng)
    ntok = len(gen.tokens_of(case['spec']['root']))
    try:
        with common.captured():
            with probe.step_budget(STEPS * max(1, ntok // 20) ** 3):
                looks = dict(case.get('look') or [])
                for k, (step, params) in enumerate(case['seq']):
                    if k in looks or str(k) in looks:
                        # something looks at the tree between two steps: it
                        # is written, numbered, analysed, navigated
                        look(ctx.R, looks.get(k, looks.get(str(k))), live)
                    if step == '_edit_word':
                        T = ctx.R.trees
                        toks = [t for t in sorted(
                            T.unordered_terminals(live),
                            key=lambda t: t.data['num'])
                            if t.data['word'] in gen.PUNCT]
                        if toks:
                            t = toks[params['k'] % len(toks)]
                            t.data['word'] = 'Wort'
                            t.data['label'] = 'NN'
                            ctx.stratum('pipeline: token corrected by hand '
                                        'between two punctuation steps')
                        continue
                    if step == '_delete_token':
                        T = ctx.R.trees
                        toks = sorted(T.unordered_terminals(live),
                                      key=lambda t: t.data['num'])
                        if len(toks) >= 3:
                            T.delete_terminal(live,
                                              toks[params['k'] % len(toks)])
                            ctx.stratum('pipeline: token deleted by hand '
                                        'before')
                        continue
                    live = getattr(tr, step)(live, **params)
                    if live is None:
                        break
    except BaseException as e:
        if isinstance(e, (KeyboardInterrupt, SystemExit)):
            raise
    ctx.case(['pipeline', case['spec']['root'], case['seq']])


def run(ctx, cur, focus, quick, thorough, maxlen=5):
    """cur: the oracle's Cur class; focus: names of the functions the oracle
    judges (a sequence must call one of them after at least one other step)."""
    from . import oracle_c04
    for i in ctx.indices(ctx.pick(quick, thorough)):
        rng = ctx.rng('pipeline', i)
        spec = oracle_c04.make_tree(rng)
        seq = draw(rng, focus, maxlen)
        if seq is None:
            continue
        case = {'kind': 'pipeline', 'spec': spec, 'seq': seq}
        looks = draw_looks(rng, seq)
        if looks:
            case['look'] = looks
            ctx.stratum('pipeline: tree looked at between the steps')
        run_case(ctx, cur, case, rng)
        for k, (step, _) in enumerate(seq):
            if step in focus and k > 0:
                ctx.stratum('pipeline: %s after other transformations' % step)
                break

"""C14 -- tree binarization and unary-chain collapsing are reversible normal
forms (DESIGN 5/C14).  Contracts with OLD snapshots on the real
transform.binarize / collapse_unary_chains / uncollapse_unary_chains."""
from . import probe, common, contracts, gen, model

PROPERTY = 'C14'
LEVEL = 'exploration'
RULE = ('binarize: head-marked trees (heads set directly: first / last / '
        'middle / random; arity 1..8; discontinuous nodes; labels built from '
        'category, function, gap index, co-index) incl. an arity x head '
        'position sweep, +-bare_bin_labels, and trees without any head marks '
        '(must be rejected when a node has > 2 children); collapse / '
        'uncollapse: trees with unary chains of length 1..4 at the root, in '
        'the middle and above tokens; labels without + and not starting with '
        '@; non-trivial = some node with > 2 children (binarize) / some unary '
        'chain (collapse); distinct = distinct canonical tree + parameters')
ASSUMPTIONS = ['"no head marks" is exercised as: no node carries a head flag '
               'at all (what an unmarked tree looks like); the case "flags '
               'present but all False" is tallied, not judged']
WATCHDOG = {'quick': 600, 'thorough': 3600}
PIPELINE_CASES = {'quick': 500, 'thorough': 20000}   # vt/pipeline.py
STEPS = 3000000
MIN = {'quick': {'distinct': 2000,
                 'hooks': {'transform.binarize': 3000,
                           'transform.collapse_unary_chains': 2000,
                           'transform.uncollapse_unary_chains': 2000},
                 'strata': {'binarize: arity>=5': 300,
                            'binarize: head in the middle': 300,
                            'binarize: unmarked rejected': 100,
                            'collapse: root chain>=3': 100,
                            'collapse: chain above token': 300,
                            'collapse: empty-string label in a chain': 60}},
       'thorough': {'distinct': 80000,
                    'hooks': {'transform.binarize': 100000}}}


class Cur(object):
    ctx = None
    case = None
    collapsed_from = {}     # id(live root) -> snapshot before collapsing


def _fail(mech, detail):
    Cur.ctx.fail('C14:' + mech, Cur.case, detail)


def pre(args, kw):
    return model.snapshot(args[0], expect_parent_none=False)


def strip_coindex_expected(n):
    """'@' + parent label without co-index, from the parts the label was
    generated from (attrs['_parts']) when available."""
    return n.attrs.get('_nocoindex', n.label)


def splice_bin(m):
    """Remove @-nodes from a model tree (children move to the parent)."""
    for c in list(m.children):
        splice_bin(c)
    for c in list(m.children):
        if c.children and isinstance(c.label, str) and c.label.startswith('@') \
                and c.attrs.get('_new'):
            m.children.remove(c)
            for g in c.children:
                g.parent = m
                m.children.append(g)
    return m


def post_binarize(old, result, exc, args, kw):
    if old is None or old[0]:
        return
    before = old[1]
    bare = 'bare_bin_labels' in kw
    wide = [n for n in before.nodes() if len(n.children) > 2]
    marked = all(k.head is not None for n in wide for k in n.children)
    unmarked = wide and all(k.head is None for n in before.nodes()
                            for k in n.children)
    spec = (Cur.case or {}).get('spec') if Cur.case else None
    if wide and spec is not None and Cur.case.get('kind') == 'binarize' \
            and not any('h' in n for n in gen.walk(spec['root'])):
        # by provenance: nothing ever marked a head in this tree (it comes
        # from the Tree API or from a reader and went straight to binarize)
        unmarked = True
    if unmarked:
        if isinstance(exc, ValueError):
            Cur.ctx.stratum('binarize: unmarked rejected')
        else:
            _fail('binarize-unmarked-not-rejected', 'tree with a %d-ary node '
                  'and no head marks: %s' % (len(wide[0].children),
                                             'returned' if exc is None
                                             else repr(exc)))
        return
    if not marked:
        return
    if wide and not all(sum(1 for k in n.children if k.head) == 1
                        for n in wide):
        Cur.ctx.stratum('binarize: flags present but not exactly one head '
                        '(unjudged)')
        return
    if exc is not None:
        _fail('binarize-raises', '%r on %s' % (exc, model.show(before, '')))
        return
    if result is not args[0]:
        _fail('binarize-returns-other-node', '')
        return
    defects, after = model.snapshot(result, expect_parent_none=False)
    if defects:
        _fail('binarize-ill-formed', '; '.join(defects))
        return
    old_ids = set(id(n.ref) for n in before.nodes())
    expect_lab = {}
    for n in before.nodes():
        expect_lab[id(n.ref)] = n
    for n in after.nodes():
        if len(n.children) > 2:
            _fail('binarize-arity', 'node %s has %d children | %s'
                  % (n.label, len(n.children), model.show(after, '')))
            return
        if id(n.ref) not in old_ids:
            n.attrs['_new'] = True
            # walk up to the first original node: that is the parent whose
            # category the @-label must carry
            a = n.parent
            while a is not None and id(a.ref) not in old_ids:
                a = a.parent
            if a is None:
                _fail('binarize-new-root', 'a new node became the root')
                return
            orig = expect_lab[id(a.ref)]
            want = '@' if bare else '@' + Cur.case.get('nocoindex', {}).get(
                orig.label, orig.label)
            if n.label != want or not n.children:
                _fail('binarize-new-node-label', 'added node labelled %r '
                      'below %r, expected %r (bare=%r)'
                      % (n.label, orig.label, want, bare))
                return
    # splice on a fresh snapshot copy that keeps the _new marks
    cp = _copy_keep(after)
    splice_bin(cp)
    if model.canon(cp, 'wplme') != model.canon(before, 'wplme'):
        _fail('binarize-not-reversible', 'removing the @-nodes gives %s, '
              'input was %s | binarized %s'
              % (model.show(cp, ''), model.show(before, ''),
                 model.show(after, '')))
        return
    pm_before = model.parent_map(before)
    arity = max([len(n.children) for n in before.nodes()] or [0])
    Cur.ctx.stratum('binarize: arity>=5' if arity >= 5 else
                    'binarize: arity=%d' % arity)
    for n in wide:
        ks = n.kids()
        h = [i for i, k in enumerate(ks) if k.head][0]
        if 0 < h < len(ks) - 1:
            Cur.ctx.stratum('binarize: head in the middle')
            break
    if any(model.gapdeg_node(n) > 0 for n in wide):
        Cur.ctx.stratum('binarize: discontinuous wide node')
    Cur.ctx.case(['bin', bare, model.canon(before, 'ph')],
                 nontrivial=bool(wide))


def _copy_keep(m):
    n = model.MN(m.label, m.edge, m.num, m.word, m.lemma, m.morph, m.head)
    n.attrs = dict(m.attrs)
    n.ref = m.ref
    for c in m.children:
        n.add(_copy_keep(c))
    return n


def ref_collapse(m):
    """Reference: merge every unary chain top-down, labels joined by '+'."""
    while len(m.children) == 1:
        c = m.children[0]
        m.label = m.label + '+' + c.label
        if c.children:
            m.children = []
            for g in c.children:
                m.add(g)
        else:
            m.children = []
            m.num, m.word, m.lemma = c.num, c.word, c.lemma
            m.morph = c.morph
    for c in m.children:
        ref_collapse(c)
    return m


def post_collapse(old, result, exc, args, kw):
    if old is None or old[0]:
        return
    before = old[1]
    if exc is not None:
        _fail('collapse-raises', '%r on %s' % (exc, model.show(before, '')))
        return
    if result is not args[0]:
        _fail('collapse-returns-other-node', '')
        return
    defects, after = model.snapshot(result, expect_parent_none=False)
    if defects:
        _fail('collapse-ill-formed', '; '.join(defects) + ' | input '
              + model.show(before, ''))
        return
    for n in after.nodes():
        if len(n.children) == 1:
            _fail('collapse-unary-left', 'unary node %s remains | %s'
                  % (n.label, model.show(after, '')))
            return
    exp = ref_collapse(before.copy())
    if model.canon(after, 'wp') != model.canon(exp, 'wp'):
        _fail('collapse-differs', 'collapsed %s, expected %s'
              % (model.show(after, ''), model.show(exp, '')))
        return
    Cur.collapsed_from[id(result)] = before
    # strata
    top = 0
    n = before
    while len(n.children) == 1:
        top += 1
        n = n.children[0]
    if top >= 2:
        Cur.ctx.stratum('collapse: root chain>=3')
    elif top == 1:
        Cur.ctx.stratum('collapse: root chain=2')
    if any(len(x.children) == 1 and not x.children[0].children
           for x in before.nodes()):
        Cur.ctx.stratum('collapse: chain above token')


def post_uncollapse(old, result, exc, args, kw):
    if old is None or old[0]:
        return
    original = Cur.collapsed_from.pop(id(args[0]), None)
    if original is None:
        return
    if exc is not None:
        _fail('uncollapse-raises', '%r restoring %s'
              % (exc, model.show(original, '')))
        return
    if result is None:
        _fail('uncollapse-returns-none', '')
        return
    if result.parent is not None:
        top = result
        depth = 0
        while top.parent is not None and depth < 50:
            top = top.parent
            depth += 1
        _fail('uncollapse-returns-inner-node', 'returned node %r has a '
              'parent (%d levels below the root) | original %s'
              % (result.data.get('label'), depth, model.show(original, '')))
        return
    defects, after = model.snapshot(result)
    if defects:
        _fail('uncollapse-ill-formed', '; '.join(defects))
        return
    if model.canon(after, 'wp') != model.canon(original, 'wp'):
        _fail('uncollapse-differs', 'restored %s, original %s'
              % (model.show(after, ''), model.show(original, '')))
        return
    # words and positions belong to tokens: a restored constituent above a
    # token must not carry that token's word or position
    for n in after.nodes():
        if not n.children:
            continue
        raw = n.ref.data
        low = n
        while len(low.children) == 1:
            low = low.children[0]
        if low.children:
            continue
        w = raw.get('word')
        if raw.get('num') is not None or (
                isinstance(w, str) and w != '' and not w.startswith('#')
                and w == low.word):
            _fail('uncollapse-token-fields-on-constituent',
                  'restored constituent %r above token %r carries word %r, '
                  'num %r' % (n.label, low.word, w, raw.get('num')))
            return
    chains = any(len(n.children) == 1 for n in original.nodes())
    Cur.ctx.case(['unc', model.canon(original, 'p')], nontrivial=chains)


def install(R):
    contracts.attach(R.transform, 'binarize', pre, post_binarize)
    contracts.attach(R.transform, 'collapse_unary_chains', pre, post_collapse)
    contracts.attach(R.transform, 'uncollapse_unary_chains', pre,
                     post_uncollapse)


# ---- workloads -------------------------------------------------------------------

def decorate_labels(rng, spec):
    """Give constituents labels built from parts; returns {label: label
    without co-index}."""
    table = {}
    for n in gen.walk(spec['root']):
        if 'c' in n and rng.random() < 0.4:
            cat = n['l']
            gf = rng.choice(['', '', '-SBJ', '-TMP'])
            gap = rng.choice(['', '', '=2'])
            co = rng.choice(['', '-1', '-12'])
            n['l'] = cat + gf + gap + co
            table[n['l']] = cat + gf + gap
    return table


def run_binarize(ctx, case, rng):
    Cur.ctx, Cur.case = ctx, case
    # trees that nothing ever head-marked come from a reader half of the time
    live = common.live_tree(ctx, case['spec'], rng,
                            via=0.5 if case.get('unmarked') else None)
    try:
        with common.captured():
            with probe.step_budget(STEPS):
                ctx.R.transform.binarize(live, **case.get('params', {}))
    except probe.StepBudgetExceeded:
        _fail('binarize-does-not-terminate', 'step budget of %d exceeded'
              % STEPS)
    except Exception:
        pass


def run_collapse(ctx, case, rng):
    Cur.ctx, Cur.case = ctx, case
    live = common.live_tree(ctx, case['spec'], rng)
    tr = ctx.R.transform
    try:
        with common.captured():
            with probe.step_budget(STEPS):
                t = tr.collapse_unary_chains(live)
                tr.uncollapse_unary_chains(t)
    except probe.StepBudgetExceeded:
        _fail('collapse-does-not-terminate', 'step budget of %d exceeded '
              '(collapse + uncollapse)' % STEPS)
    except Exception:
        pass
    Cur.collapsed_from.clear()


def chain_tree(rng, pools):
    """Tree with explicit unary chains at root / middle / above tokens."""
    n = rng.randint(1, 10)
    spec = gen.tree(rng, n, pools, max_arity=rng.choice([2, 3, 4]),
                    p_unary=rng.choice([0.1, 0.3, 0.5]), max_chain=4,
                    moves=rng.choice([0, 0, 1, 3]),
                    root_pieces=rng.choice([1, 1, 2]),
                    p_root_unary=rng.choice([0, 0.4, 0.7]))
    if rng.random() < 0.06:
        # a constituent of a unary chain whose label is the empty string (a
        # tree built through the API, a TIGER-XML node with cat=""): the
        # labels are joined with '+' all the same, `NP+` / `+S` / `A++B`
        cands = [n for n in gen.walk(spec['root'])
                 if 'c' in n and n is not spec['root'] and len(n['c']) == 1]
        if cands:
            rng.choice(cands)['l'] = ''
            EMPTY_LABEL[0] += 1
    return spec


EMPTY_LABEL = [0]


def shard(ctx):
    install(ctx.R)
    pools = gen.Pools()
    # arity x head position sweep
    k = 0
    for arity in range(1, 9):
        for hpos in range(arity):
            for variant in range(ctx.pick(6, 200)):
                k += 1
                if not ctx.mine(k):
                    continue
                rng = ctx.rng('sweep', k)
                kids = []
                num = [0]

                def tk():
                    num[0] += 1
                    return pools.token(rng, num[0])
                for i in range(arity):
                    if rng.random() < 0.3:
                        kids.append({'l': gen.pick(rng, pools.cats), 'e': '--',
                                     'c': [tk() for _ in range(rng.randint(1, 3))]})
                    else:
                        kids.append(tk())
                spec = {'sid': 1, 'root': {'l': 'VROOT', 'e': '--', 'c': [
                    {'l': 'S', 'e': '--', 'c': kids}]}}
                if variant % 3 == 2:
                    order = gen.disorder(rng, num[0], 2)
                    for t in gen.tokens_of(spec['root']):
                        t['n'] -= 1
                    gen.renumber(spec['root'], order)
                gen.assign_heads(rng, spec)
                for i, c in enumerate(spec['root']['c'][0]['c']):
                    c['h'] = (i == hpos)
                table = decorate_labels(rng, spec)
                params = {'bare_bin_labels': True} if variant % 2 else {}
                run_binarize(ctx, {'kind': 'binarize', 'spec': spec,
                                   'params': params, 'nocoindex': table}, rng)
    for i in ctx.indices(ctx.pick(4000, 1000000)):
        rng = ctx.rng('bin', i)
        n = rng.randint(1, 24)
        spec = gen.tree(rng, n, pools, max_arity=rng.choice([2, 3, 5, 8]),
                        p_unary=rng.choice([0, 0.15]),
                        moves=rng.choice([0, 0, 1, 3, 6]))
        gen.spice(rng, spec, ['cat-keyword', 'cat-apostrophe',
                              'cat-digit-first', 'cat-punct-char',
                              'pos-punct-char'], p=0.3, q=0.5)
        unmarked = rng.random() < 0.08
        if not unmarked:
            gen.assign_heads(rng, spec, rng.choice(['random', 'first', 'last']))
        table = decorate_labels(rng, spec) \
            if not unmarked or rng.random() < 0.5 else {}
        params = {'bare_bin_labels': True} if rng.random() < 0.4 else {}
        run_binarize(ctx, {'kind': 'binarize', 'spec': spec, 'params': params,
                           'nocoindex': table, 'unmarked': unmarked}, rng)
        if i < 2:
            ctx.sample({'binarize': model.show(model.from_spec(spec['root']), '')})
    for i in ctx.indices(ctx.pick(4000, 1000000)):
        rng = ctx.rng('chain', i)
        n0 = EMPTY_LABEL[0]
        spec = chain_tree(rng, pools)
        if EMPTY_LABEL[0] != n0:
            ctx.stratum('collapse: empty-string label in a chain')
        run_collapse(ctx, {'kind': 'collapse', 'spec': spec}, rng)
        if i < 2:
            ctx.sample({'collapse': model.show(model.from_spec(spec['root']), '')})
    # ---- inside sequences of other transformations (vt/pipeline.py) ----
    from . import pipeline
    pipeline.run(ctx, Cur, ('binarize', 'collapse_unary_chains', 'uncollapse_unary_chains'), 1500, 60000)



def replay(ctx, case):
    if case.get('kind') == 'pipeline':
        install(ctx.R)
        from . import pipeline
        pipeline.run_case(ctx, Cur, case, ctx.rng('replay'))
        return
    install(ctx.R)
    rng = ctx.rng('replay')
    if case['kind'] == 'binarize':
        run_binarize(ctx, case, rng)
    else:
        run_collapse(ctx, case, rng)

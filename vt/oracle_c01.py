"""C01 -- readers decode every well-formed treebank file faithfully
(DESIGN 5/C01).  H2 generator monitors on the four readers (every yielded
tree is snapshot), H4 line probe on the bracket automaton's locals, files from
the independent encoders of vt/codec.py, and a complete sweep of bracket
token-class sequences judged by an independent scanner."""
import gzip
import os
import inspect
import io
import itertools
import sys

from . import codec, common, contracts, gen, model, probe

PROPERTY = 'C01'
LEVEL = 'exploration'
RULE = ('treebanks of 1..6 sentences (1..14 tokens; continuous / '
        'discontinuous; unary chains; one-token sentences; root dominating '
        'only tokens; labels built from category, function, gap index, '
        'co-index, head mark; ASCII / punctuation / XML-special / non-ASCII / '
        'bracket-name words) encoded by vt/codec.py as export v3/v4 (headers, '
        'comments, secondary edges, shuffled and non-contiguous node lines, '
        'CRLF), brackets (line / pretty / random whitespace, empty or '
        'labelled root), discobrackets (with and without final newline) and '
        'TIGER-XML (shuffled attributes / nodes / edges, secondary edges), '
        'plain or gzip; reader options continuous, gf_split, gf_separator, '
        'replace_parens, brackets_emptypos, brackets_firstid, quiet; plus all '
        'bracket token-class sequences over {(, ), whitespace, token} up to '
        'length 9 (quick) / 12 (thorough); non-trivial = treebank of >= 2 '
        'sentences with some option or hostile layout / class sequence with '
        'at least one closed group; distinct = distinct (treebank, format, '
        'layout, options) / class sequence')
ASSUMPTIONS = ['vt/codec.py encoders define "well-formed file" for each format',
               'labels are generated from parts, so the expected effect of '
               'gf_split is known by construction (no reference label parser)',
               'disco_reordered is exercised but not judged: its semantics is '
               'only given by a one-line help text',
               'a top-level bare preterminal "(POS word)" and stray material '
               'between trees are unclassified: only "never decoded into a '
               'different tree" is checked there',
               'an unterminated final group is an ill-formed group: it must '
               'yield nothing and raise ValueError',
               'TIGER-XML optional attributes (lemma, morph) absent: None or '
               '-- both accepted']
WATCHDOG = {'quick': 900, 'thorough': 5400}
LONG_SENTENCES = 3      # floor for the stratum the runner adds (gen.maybe_long)
MIN = {'quick': {'distinct': 20000,
                 'hooks': {'treeinput.export': 800, 'treeinput.brackets': 20000,
                           'treeinput.discobrackets': 400,
                           'treeinput.tigerxml': 600,
                           'automaton states probed': 100000},
                 'strata': {'gf_split': 600, 'replace_parens': 300,
                            'gzip': 100, 'export v4': 150,
                            'tigerxml without VROOT node': 30, 'arity > 6': 50,
                            'brackets_emptypos': 30,
                            'category EMPTY read with gf_split': 30,
                            'gzip file with two members': 30,
                            'file longer than 24 000 characters': 8,
                            'file longer than 2**20 characters, a token '
                            'across character 2**20': 2,
                            'word starting with # or %%': 60,
                            'gf_separator differs from the labels': 30,
                            'word with non-ASCII space character': 30,
                            'file in latin-1': 150, 'file in utf-16': 50,
                            'tigerxml: encoding argument differs from the '
                            'declaration': 50,
                            'discobrackets token that is a bare '
                            'parenthesis': 40,
                            'cross-format agreement': 200,
                            'sweep: ill-formed group rejected': 20000,
                            'file with rootless TIGER-XML sentences': 50,
                            'sweep: well-formed group decoded': 100,
                            'sweep: unterminated group rejected': 5000}},
       'thorough': {'distinct': 500000,
                    'hooks': {'treeinput.export': 30000,
                              'treeinput.tigerxml': 30000}}}


class Cur(object):
    ctx = None
    case = None


def _fail(mech, detail):
    Cur.ctx.fail('C01:' + mech, Cur.case, detail)


def noop(items, exc, args, kw):
    pass


def install(R):
    for f in ('export', 'brackets', 'discobrackets', 'tigerxml'):
        contracts.attach_gen(R.treeinput, f, noop)


# ---- H4: line probe on the bracket automaton -------------------------------------------

class AutomatonProbe(object):
    """Reads the generator frame's locals at the first statement of the loop
    body of treeinput.brackets (state *before* the lexer token is processed)."""

    def __init__(self, R, ctx):
        self.ctx = ctx
        self.ok = False
        self.pairs = set()
        self.violations = []
        self.count = 0
        fn = R.treeinput.brackets
        fn = getattr(fn, '_vt_orig', fn)
        self.code = fn.__code__
        try:
            lines, start = inspect.getsourcelines(fn)
        except (OSError, TypeError):
            return
        self.line = None
        for i, ln in enumerate(lines):
            if 'if lexclass ==' in ln and 'LRB' in ln:
                self.line = start + i
                break
        if self.line is None or probe.MON is None:
            return
        self.tool = 3
        try:
            probe.MON.use_tool_id(self.tool, 'vt-automaton')
        except ValueError:
            pass
        probe.MON.register_callback(self.tool, probe.MON.events.LINE, self.cb)
        self.ok = True

    def on(self):
        if self.ok:
            probe.MON.set_local_events(self.tool, self.code,
                                       probe.MON.events.LINE)

    def off(self):
        if self.ok:
            probe.MON.set_local_events(self.tool, self.code, 0)

    def cb(self, code, line):
        if line != self.line:
            return None
        try:
            loc = sys._getframe(1).f_locals
            state, level = loc['state'], loc['level']
            queue, term_cnt = loc['queue'], loc['term_cnt']
            lexclass = loc['lexclass']
        except Exception:
            return None
        self.count += 1
        self.pairs.add((state, lexclass))
        if len(queue) != level:
            self.violations.append('len(queue)=%d but level=%d in state %r'
                                   % (len(queue), level, state))
        if state == 0 and (level != 0 or queue or term_cnt != 1):
            self.violations.append('between sentences (state 0): level=%d, '
                                   '%d open nodes, next token number %d'
                                   % (level, len(queue), term_cnt))
        if state != 0 and level == 0:
            self.violations.append('state %r at level 0' % (state,))
        return None


# ---- label construction -------------------------------------------------------------------

ROOT_DECORATED = [0]


def make_label(rng, cat, sep, allow):
    gf = rng.choice(['', '', 'SB', 'HD', 'OA', 'MO',
                     # several function tags: everything after the first
                     # separator is the function
                     'LOC' + sep + 'PRD', 'SBJ' + sep + 'TPC']) if allow else ''
    gap = rng.choice(['', '', '', '1']) if allow else ''
    co = rng.choice(['', '', '2', '13']) if allow else ''
    head = "'" if allow and rng.random() < 0.1 else ''
    lab = cat + (sep + gf if gf else '') + ('=' + gap if gap else '') \
        + ('-' + co if co else '') + head
    return lab, [cat, gf, gap, co, head]


def make_bank(rng, fmt, decorated, sep, quick=True, unispace=True, big=False,
              root_label=False):
    words = rng.choice([gen.WORDS_ASCII, gen.WORDS_ASCII + gen.PUNCT[:8]
                        + gen.COMMA, gen.WORDS_ASCII + gen.WORDS_NONASCII
                        + gen.WORDS_BEYOND_LATIN1,
                        gen.WORDS_ASCII + ['-LRB-', '-RRB-', '[', ']', '{',
                                           '}', '-LSB-', 'a[b]'],
                        gen.WORDS_ASCII + gen.WORDS_XML])
    if rng.random() < 0.15:
        # tokens that look like markup of the export format but are not
        words = words + gen.WORDS_HASH
    if unispace and fmt != 'export' and rng.random() < 0.15:
        # characters that are white space for Unicode but not for the formats
        # (the export reader splits fields on any Unicode white space, so the
        # export format cannot carry them: excluded there)
        words = words + gen.WORDS_UNISPACE
    if fmt in ('brackets', 'discobrackets'):
        words = [w for w in words if '(' not in w and ')' not in w]
        if fmt == 'discobrackets' and rng.random() < 0.25:
            # on the token line a parenthesis standing alone is a token
            words = words + ['(', ')', '(', ')']
    empty_cat = rng.random() < 0.12
    pools = gen.Pools(words=words, pos=gen.POS + ['$.', '$,', 'PRP$']
                      + (['EMPTY'] * 4 if empty_cat else []),
                      cats=gen.CATS + (['EMPTY'] * 4 if empty_cat else []),
                      edges=['HD', 'NK', 'SB', 'OA', 'MO', '--', '--'],
                      morphs=gen.MORPHS + ['[Sg]', '(x)', '-LRB-'])
    k = rng.randint(1, 4 if quick else 6)
    if big:
        # a file well beyond any internal buffer size (> 3 x 8192 characters)
        k = rng.randint(150, 260)
    cont = fmt == 'brackets'
    bank = []
    sid = rng.choice([1, 1, 5, 100, 0])
    for j in range(k):
        n = rng.choice([1, 1, 2, 3, 5, 8]) if rng.random() < 0.6 \
            else rng.randint(1, 14)
        if not big:
            n = gen.maybe_long(rng, n, 0.003)
        t = gen.tree(rng, n, pools, max_arity=rng.choice([2, 3, 5, 9]),
                     p_unary=rng.choice([0, 0.15, 0.3]),
                     moves=0 if cont else rng.choice([0, 0, 1, 2, 4]),
                     root_pieces=rng.choice([1, 1, 2, 3]), sid=sid)
        sid += rng.choice([1, 1, 1, 3])
        # hostile strings every format can carry: square / curly brackets in
        # categories, Python literals as words, morphology or lemma, keyword
        # tags (before the labels are decorated below)
        gen.spice(rng, t, ['word-backslash', 'cat-square-bracket', 'word-python-literal',
                           'morph-python-literal', 'pos-keyword',
                           'cat-keyword', 'word-keyword', 'word-percent'],
                  p=0.15)
        for node in gen.walk(t['root']):
            if 'c' in node and node is not t['root']:
                lab, parts = make_label(rng, node['l'], sep, decorated)
                node['l'] = lab
                node['x'] = {'parts': parts}
        if root_label and fmt in ('brackets', 'discobrackets') \
                and decorated and rng.random() < 0.3:
            # the outermost bracket carries a label like any other: a
            # sentence category with its function tag
            lab, parts = make_label(rng, rng.choice(['S', 'SINV', 'FRAG']),
                                    sep, decorated)
            t['root']['l'] = lab
            t['root']['x'] = {'parts': parts}
            ROOT_DECORATED[0] += 1
        bank.append(t)
    return bank


def expected_node(n, fmt, opts, sep, is_root, mismatch=False):
    """(label, edge) the reader must give a node."""
    parts = n.attrs.get('parts')
    if mismatch and parts is not None and parts[1]:
        # the label contains no occurrence of the separator the reader was
        # given: nothing to split off, the label stays as it is
        parts = None
    label, edge = n.label, n.edge
    if fmt in ('brackets', 'discobrackets'):
        edge = '--'
    if is_root and fmt in ('export', 'brackets', 'discobrackets'):
        edge = '--' if fmt == 'export' else edge
    if 'gf_split' in opts:
        if parts is not None:
            cat, gf, gap, co, head = parts
            label = cat + ('=' + gap if gap else '') + ('-' + co if co else '') \
                + head
            edge = gf if gf else '--'
        else:
            edge = '--'
    if 'replace_parens' in opts:
        label = codec.replace_parens(label)
        edge = codec.replace_parens(edge)
    return label, edge


def compare_tree(got, exp, fmt, opts, sep, v4, mismatch=False):
    """got: snapshot MN; exp: model from the spec."""
    def rec(g, e, path):
        if bool(g.children) != bool(e.children):
            return '%s: token vs constituent' % path
        is_root = e.parent is None
        label, edge = expected_node(e, fmt, opts, sep, is_root, mismatch)
        if is_root and fmt == 'export':
            label = 'VROOT'
        if is_root and fmt in ('brackets', 'discobrackets') and \
                e.attrs.get('_emptyroot'):
            label = 'VROOT'
        if g.label != label and not e.attrs.get('emptypos'):
            return '%s: label %r, expected %r' % (path, g.label, label)
        if not (is_root and fmt in ('brackets', 'discobrackets')
                and e.attrs.get('_emptyroot')):
            if g.edge != edge and not (is_root and fmt == 'tigerxml'):
                return '%s: edge %r, expected %r' % (path, g.edge, edge)
        if not e.children:
            if e.attrs.get('emptypos') and g.label != 'EMPTY':
                return '%s: token without POS tag read with label %r, ' \
                    'expected EMPTY' % (path, g.label)
            word = e.word
            if 'replace_parens' in opts:
                word = codec.replace_parens(word)
            if g.word != word:
                return '%s: word %r, expected %r' % (path, g.word, word)
            if g.num != e.num:
                return '%s: token number %r, expected %r' % (path, g.num, e.num)
            if fmt in ('export', 'tigerxml'):
                morph = e.morph
                if 'replace_parens' in opts:
                    morph = codec.replace_parens(morph)
                if g.morph != morph and not (e.attrs.get('_optional')
                                             and g.morph in (None, '--')):
                    return '%s: morph %r, expected %r' % (path, g.morph, morph)
            if fmt == 'tigerxml' or (fmt == 'export' and v4):
                lemma = e.lemma
                if 'replace_parens' in opts:
                    lemma = codec.replace_parens(lemma)
                if g.lemma != lemma and not (e.attrs.get('_optional')
                                             and g.lemma in (None, '--')):
                    return '%s: lemma %r, expected %r' % (path, g.lemma, lemma)
            return None
        gk, ek = g.kids(), e.kids()
        if len(gk) != len(ek):
            return '%s: %d children, expected %d' % (path, len(gk), len(ek))
        for a, b in zip(gk, ek):
            if a.nums() != b.nums():
                return '%s: child yields %r vs %r' % (path, a.nums(), b.nums())
        for a, b in zip(gk, ek):
            r = rec(a, b, path + '/' + str(b.label))
            if r:
                return r
        return None
    return rec(got, exp, 'root')


def read_all(ctx, fmt, path, enc, opts):
    """Consume the real reader; -> (trees, exception, stdout, stderr)"""
    R = ctx.R
    trees = []
    exc = None
    with common.captured() as (out, err):
        try:
            # generous and growing with the file: separates "does not
            # terminate" from "slow"
            with probe.step_budget(5000000 + 20000 * os.path.getsize(path)):
                for t in getattr(R.treeinput, fmt)(path, enc, **opts):
                    trees.append(t)
        except BaseException as e:
            if isinstance(e, (KeyboardInterrupt, SystemExit)):
                raise
            exc = e
    return trees, exc, out.getvalue(), err.getvalue()


def _no_vroot(eo, bank):
    """The TIGER-XML file is written without a node above the top constituent:
    possible when every root has one constituent child - and that child is not
    itself labelled VROOT (a file cannot say "a VROOT below the root")."""
    # (the child may be the only token of the sentence: then the file has no
    # <nt> at all for it)
    return bool(eo.get('no_vroot')) and all(
        len(sp['root']['c']) == 1
        and not str(sp['root']['c'][0].get('l', '')).startswith('VROOT')
        and not str(sp['root']['c'][0].get('p', '')).startswith('VROOT')
        for sp in bank)


def run_case(ctx, case, probe_obj=None):
    """case: bank, fmt, enc_opts (how the file is written), opts (reader),
    sep, gz, encoding"""
    Cur.ctx, Cur.case = ctx, case
    fmt, bank, opts = case['fmt'], case['bank'], dict(case['opts'])
    eo = case['enc_opts']
    rng = ctx.rng('layout', case.get('layout_seed', 0))
    v4 = bool(eo.get('v4'))
    if fmt == 'export':
        text = codec.export_encode(bank, rng=rng, **eo)
    elif fmt == 'brackets':
        text = codec.brackets_encode(bank, rng, empty_root=eo.get('empty_root'),
                                     layout=eo.get('layout', 'line'))
    elif fmt == 'discobrackets':
        text = codec.discobrackets_encode(
            bank, rng=rng if eo.get('shuffle_children') else None)
        if eo.get('no_final_newline'):
            text = text[:-1]
    else:
        no_vroot = _no_vroot(eo, bank)
        text = codec.tigerxml_encode(bank, rng if eo.get('shuffle') else None,
                                     with_vroot=not no_vroot,
                                     sid_format=eo.get('sid_format', 's%d'),
                                     secedges=eo.get('secedges', False),
                                     omit_optional=eo.get('omit_optional', False),
                                     encoding=case.get('encoding', 'utf-8'))
    if case.get('huge') and fmt in ('brackets', 'discobrackets'):
        # the file is longer than 2**20 characters (the same sentences over
        # and over, one per line), and it begins with as many blanks as it
        # takes for character 2**20 to fall inside a token: however the
        # reader cuts its input into blocks, tokens are not cut
        rep = (1 << 20) * 21 // 20 // max(1, len(text)) + 1
        text = text * rep
        bank = bank * rep
        for k_ in range(2000):
            p_ = (1 << 20) - k_
            if text[p_ - 2:p_ + 2].isalnum():
                text = ' ' * k_ + text
                break
        assert text[(1 << 20) - 2:(1 << 20) + 2].isalnum()
        ctx.stratum('file longer than 2**20 characters, a token across '
                    'character 2**20')
    enc = case.get('encoding', 'utf-8')
    path = ctx.path('.' + fmt + ('.gz' if case.get('gz') else ''))
    try:
        data = text.encode(enc)
    except UnicodeError:
        enc = case['encoding'] = 'utf-8'
        if fmt == 'tigerxml':
            text = text.replace('encoding="latin-1"', 'encoding="utf-8"', 1)
        data = text.encode(enc)
    if enc != 'utf-8':
        ctx.stratum('file in ' + enc)
    if fmt == 'tigerxml':
        # "The encoding argument is ignored here": the declaration counts
        enc = case.get('encoding_argument', enc)
        if enc != case.get('encoding', 'utf-8'):
            ctx.stratum('tigerxml: encoding argument differs from the '
                        'declaration')
    if case.get('gz'):
        if case.get('layout_seed', 0) % 2 and len(data) > 20:
            # a gzip file made of two members (cat a.gz b.gz > all.gz)
            cut = len(data) // 2
            with io.open(path, 'wb') as f:
                f.write(gzip.compress(data[:cut]))
                f.write(gzip.compress(data[cut:]))
            ctx.stratum('gzip file with two members')
        else:
            with gzip.open(path, 'wb') as f:
                f.write(data)
    else:
        with io.open(path, 'wb') as f:
            f.write(data)
    if probe_obj is not None and fmt in ('brackets', 'discobrackets'):
        probe_obj.on()
    try:
        trees, exc, out, err = read_all(ctx, fmt, path, enc, opts)
    finally:
        if probe_obj is not None:
            probe_obj.off()
    if probe_obj is not None and probe_obj.violations:
        v = probe_obj.violations[0]
        probe_obj.violations = []
        _fail('automaton-state-invariant', v + ' | file %r' % text[:200])
        return
    if isinstance(exc, probe.StepBudgetExceeded):
        _fail('%s-does-not-terminate' % fmt, 'file %r' % text[:200])
        return
    if exc is not None:
        _fail('%s-raises-on-well-formed-file' % fmt, '%r | file %r'
              % (exc, text[:300]))
        return
    if 'quiet' in opts and (out or err):
        _fail('%s-quiet-not-silent' % fmt, 'printed %r %r' % (out[:80], err[:80]))
        return
    if len(trees) != len(bank):
        mech = '%s-sentence-count' % fmt
        _fail(mech, '%d trees for %d sentences | file %r'
              % (len(trees), len(bank), text[:300]))
        return
    sep = case.get('sep', '-')
    for i, (t, spec) in enumerate(zip(trees, bank)):
        defects, got = model.snapshot(t)
        if defects:
            _fail('%s-yields-ill-formed-tree' % fmt, 'sentence %d: %s | file %r'
                  % (i + 1, '; '.join(defects[:3]), text[:300]))
            return
        exp = model.from_spec(spec['root'])
        if eo.get('empty_root'):
            exp.attrs['_emptyroot'] = True
        if fmt == 'tigerxml' and _no_vroot(eo, bank):
            # the file has no node above the top constituent, hence no edge
            # label for it
            exp.children[0].edge = '--'
        if eo.get('omit_optional'):
            for tok in exp.toks():
                tok.attrs['_optional'] = True
        # expected sentence id
        if fmt in ('export', 'tigerxml'):
            sid = i + 1 if 'continuous' in opts else spec['sid']
        else:
            sid = opts.get('brackets_firstid', 1) + i
        if t.data.get('sid') != sid:
            _fail('%s-sentence-id' % fmt, 'sentence %d has id %r, expected %r '
                  '(options %r)' % (i + 1, t.data.get('sid'), sid, opts))
            return
        if 'disco_reordered' in opts:
            ctx.stratum('disco_reordered (unjudged)')
            continue
        diff = compare_tree(got, exp, fmt, opts, sep, v4,
                            case.get('mismatch', False))
        if diff:
            mech = '%s-decoded-tree-differs' % fmt
            if 'gf_split' in opts and ('label' in diff or 'edge' in diff):
                mech = '%s-gf_split' % fmt
                if sep != '-':
                    mech += '-custom-separator'
            elif fmt == 'discobrackets':
                mech = 'discobrackets-token-mapping'
                if eo.get('no_final_newline') and i == len(bank) - 1:
                    mech = 'discobrackets-last-token-without-final-newline'
            _fail(mech, 'sentence %d: %s | options %r | tree %s | file %r'
                  % (i + 1, diff, opts, model.show(exp, 'w'), text[:300]))
            return
    for o in opts:
        ctx.stratum(o)
    if case.get('gz'):
        ctx.stratum('gzip')
    if case.get('big'):
        ctx.stratum('file longer than 24 000 characters'
                    if len(text) > 24000 else 'large file')
    if case.get('mismatch'):
        ctx.stratum('gf_separator differs from the labels')
    if any(n.get('l', n.get('p')) is not None and
           str(n.get('l', n.get('p'))).startswith('EMPTY')
           for sp in bank for n in gen.walk(sp['root'])) and 'gf_split' in opts:
        ctx.stratum('category EMPTY read with gf_split')
    if any(t['w'][:1] in '#%' for sp in bank for t in gen.tokens_of(sp['root'])):
        ctx.stratum('word starting with # or %%')
    if any(c in t['w'] for sp in bank for t in gen.tokens_of(sp['root'])
           for c in '\u00a0\u3000\u2009'):
        ctx.stratum('word with non-ASCII space character')
    if fmt == 'discobrackets' and any(
            t['w'] in '()' for sp in bank for t in gen.tokens_of(sp['root'])):
        ctx.stratum('discobrackets token that is a bare parenthesis')
    if v4:
        ctx.stratum('export v4')
    if fmt == 'tigerxml' and _no_vroot(eo, bank):
        ctx.stratum('tigerxml without VROOT node')
        if any('c' not in sp['root']['c'][0] for sp in bank):
            ctx.stratum('tigerxml: one-token sentence without any <nt>')
    if any(len(n.get('c', [])) > 6 for sp in bank for n in gen.walk(sp['root'])):
        ctx.stratum('arity > 6')
    ctx.stratum('format ' + fmt)
    hostile = any(eo.values()) or bool(opts) or case.get('gz')
    ctx.case([case['fmt'], [s['root'] for s in bank], sorted(eo.items()),
              sorted((k, str(v)) for k, v in opts.items()), case.get('gz')],
             nontrivial=len(bank) >= 2 and bool(hostile))
    return trees


def draw_case(rng, fmt, quick):
    sep = rng.choice(['-', '-', '-', '#'])
    decorated = rng.random() < 0.6
    opts = {}
    if rng.random() < 0.8:
        opts['quiet'] = True
    if decorated and rng.random() < 0.7 or rng.random() < 0.15:
        opts['gf_split'] = True
        if sep != '-' or rng.random() < 0.2:
            opts['gf_separator'] = sep
    if not decorated:
        sep = '-'
    mismatch = False
    if decorated and 'gf_split' in opts and rng.random() < 0.15:
        # the reader is told another separator than the labels use
        mismatch = True
        opts['gf_separator'] = '#' if sep == '-' else '-'
        if opts['gf_separator'] == '-':
            opts.pop('gf_separator')
    if rng.random() < 0.25:
        opts['replace_parens'] = True
    eo = {}
    if fmt == 'export':
        if rng.random() < 0.3:
            opts['continuous'] = True
        eo = {'v4': rng.random() < 0.4, 'header': rng.random() < 0.3,
              'comments': rng.random() < 0.3, 'secedges': rng.random() < 0.3,
              'shuffle_lines': rng.random() < 0.3,
              'noncontiguous': rng.random() < 0.3,
              'bos_trailer': rng.random() < 0.3, 'crlf': rng.random() < 0.15,
              'tabs': rng.random() < 0.8}
    elif fmt == 'brackets':
        if rng.random() < 0.3:
            opts['brackets_firstid'] = rng.choice([0, 7, 1000])
        eo = {'empty_root': rng.random() < 0.5,
              'layout': rng.choice(['line', 'pretty', 'random', 'random'])}
        if rng.random() < 0.2:
            opts['brackets_emptypos'] = True
            eo['emptypos'] = True
    elif fmt == 'discobrackets':
        if rng.random() < 0.3:
            opts['brackets_firstid'] = rng.choice([0, 7, 1000])
        if rng.random() < 0.08:
            opts['disco_reordered'] = True
        eo = {'no_final_newline': rng.random() < 0.3,
              'shuffle_children': rng.random() < 0.5}
    else:
        if rng.random() < 0.3:
            opts['continuous'] = True
        eo = {'shuffle': rng.random() < 0.6,
              'sid_format': rng.choice(['s%d', '%d', 'corpus7_s%d', 's%d']),
              'secedges': rng.random() < 0.3,
              'omit_optional': rng.random() < 0.15,
              'no_vroot': rng.random() < 0.4}
    case = {'kind': 'bank', 'fmt': fmt, 'opts': opts, 'enc_opts': eo,
            'sep': sep, 'mismatch': mismatch,
            'gz': fmt != 'tigerxml' and rng.random() < 0.15,
            'layout_seed': rng.randrange(10 ** 6)}
    r = rng.random()
    if r < 0.25:
        case['encoding'] = 'latin-1'    # falls back to utf-8 if not encodable
    elif r < 0.33 and fmt != 'tigerxml':
        case['encoding'] = 'utf-16'
    if fmt == 'tigerxml' and rng.random() < 0.4:
        case['encoding_argument'] = rng.choice(['utf-8', 'latin-1', 'ascii'])
    big = rng.random() < 0.012
    case['bank'] = make_bank(rng, fmt, decorated, sep, quick, big=big,
                             root_label=True)
    case['big'] = big
    if eo.get('emptypos'):
        for sp in case['bank']:
            for t in gen.tokens_of(sp['root']):
                if rng.random() < 0.4:
                    t['x'] = {'emptypos': True}
    return case


def cross_format(ctx, rng):
    """gf_split / replace_parens have the same effect in every format that
    offers them: one continuous treebank, three formats, same options."""
    sep = rng.choice(['-', '-', '#'])
    bank = make_bank(rng, 'brackets', True, sep, unispace=False)
    opts = {'quiet': True, 'gf_split': True}
    if sep != '-':
        opts['gf_separator'] = sep
    if rng.random() < 0.4:
        opts['replace_parens'] = True
    results = {}
    for fmt in ('export', 'brackets', 'tigerxml'):
        case = {'kind': 'bank', 'fmt': fmt, 'opts': opts, 'enc_opts': {},
                'sep': sep, 'gz': False, 'bank': bank, 'layout_seed': 1}
        trees = run_case(ctx, case)
        if trees is None:
            return
        results[fmt] = [[(n.label, n.edge) for n in model.snapshot(t)[1].nodes()
                         if n.parent is not None] for t in trees]
    Cur.case = {'kind': 'cross', 'bank': bank, 'opts': opts, 'sep': sep}
    if not (results['export'] == results['brackets'] == results['tigerxml']):
        _fail('gf_split-differs-across-formats', 'options %r: export %r | '
              'brackets %r | tigerxml %r'
              % (opts, results['export'][0][:4], results['brackets'][0][:4],
                 results['tigerxml'][0][:4]))
        return
    ctx.stratum('cross-format agreement')


# ---- bracket token-class sweep ----------------------------------------------------------

class FakeIO(object):
    """In-memory stand-in for the `io` module inside treeinput (no files)."""

    def __init__(self, real):
        self.real = real
        self.files = {}

    def open(self, path, *a, **k):
        if path in self.files:
            return io.StringIO(self.files[path])
        return self.real.open(path, *a, **k)

    def __getattr__(self, name):
        return getattr(self.real, name)


def rootless(ctx, rng, i, case=None):
    """TIGER-XML files in which some sentences have several nodes without a
    parent (the root node is missing): whatever the reader does with those -
    skip them, as the unchanged reader does, or read them - every tree it
    yields is well formed, and the well-formed sentences of the file are all
    there, in order, exactly as encoded."""
    if case is None:
        bank = make_bank(rng, 'tigerxml', False, '-', quick=True)
        bad = [sp['sid'] for sp in bank
               if len(sp['root']['c']) >= 2 and rng.random() < 0.6]
        case = {'kind': 'rootless', 'bank': bank, 'bad': bad,
                'opts': rng.choice([{}, {'quiet': True}]),
                'shuffle': rng.random() < 0.5, 'layout_seed': i}
    Cur.ctx, Cur.case = ctx, case
    bank, bad = case['bank'], set(case['bad'])
    text = codec.tigerxml_encode(
        bank, ctx.rng('layout', case['layout_seed']) if case['shuffle']
        else None, headless=bad)
    path = common.write(ctx.path('.rootless.xml'), text)
    trees, exc, out, err = read_all(ctx, 'tigerxml', path, 'utf-8',
                                    case['opts'])
    if exc is not None:
        _fail('tigerxml-raises-on-file-with-rootless-sentence', '%r | file %r'
              % (exc, text[:300]))
        return
    good = [sp for sp in bank if sp['sid'] not in bad]
    by_sid = dict((sp['sid'], sp) for sp in bank)
    seen = []
    for t in trees:
        defects, got = model.snapshot(t)
        if defects:
            _fail('tigerxml-yields-ill-formed-tree', 'sentence %r (%s): %s'
                  % (t.data.get('sid'), 'several parentless nodes in the file'
                     if t.data.get('sid') in bad else 'well-formed in the '
                     'file', '; '.join(defects[:3])))
            return
        sid = t.data.get('sid')
        if sid not in by_sid:
            _fail('tigerxml-sentence-id', 'tree with id %r, file has %r'
                  % (sid, sorted(by_sid)))
            return
        exp = model.from_spec(by_sid[sid]['root'])
        if sid in bad:
            # read after all: at least the sentence is the sentence
            if [(x.word, x.label) for x in got.toks()] != \
                    [(x.word, x.label) for x in exp.toks()]:
                _fail('tigerxml-rootless-sentence-tokens', 'sentence %r: '
                      'tokens %r' % (sid, [x.word for x in got.toks()][:8]))
                return
            ctx.stratum('rootless sentence read')
            continue
        seen.append(sid)
        diff = compare_tree(got, exp, 'tigerxml', case['opts'], '-', False)
        if diff:
            _fail('tigerxml-tree-differs', 'sentence %r next to a rootless '
                  'one: %s' % (sid, diff))
            return
    if seen != [sp['sid'] for sp in good]:
        _fail('tigerxml-sentence-count', 'well-formed sentences %r, read %r '
              '(rootless: %r)' % ([sp['sid'] for sp in good], seen,
                                  sorted(bad)))
        return
    if bad:
        ctx.stratum('file with rootless TIGER-XML sentences')
    ctx.case(['rootless', sorted(bad), [model.canon(model.from_spec(
        sp['root']), 'w') for sp in bank]], nontrivial=bool(bad))


def render(classes):
    out = []
    k = 0
    for c in classes:
        if c == 'L':
            out.append('(')
        elif c == 'R':
            out.append(')')
        elif c == 'W':
            out.append(' ')
        else:
            k += 1
            out.append('t%d' % k)
    return ''.join(out)


def scan(classes, emptypos=False):
    """Independent scanner: split a class sequence into top-level items
    -> list of ('wf', spec) | ('ill',) | ('uncl',) | ('open',)."""
    toks = []
    k = 0
    for c in classes:
        if c == 'T':
            k += 1
            toks.append(('T', 't%d' % k))
        else:
            toks.append((c, None))
    items = []
    i = 0
    n = len(toks)
    while i < n:
        c = toks[i][0]
        if c in ('W', 'T', 'R'):
            i += 1          # stray material between trees: not a group
            continue
        # find the matching close
        depth = 0
        j = i
        while j < n:
            if toks[j][0] == 'L':
                depth += 1
            elif toks[j][0] == 'R':
                depth -= 1
                if depth == 0:
                    break
            j += 1
        if j >= n:
            items.append(('open',))
            break
        group = toks[i:j + 1]
        items.append(classify(group, emptypos))
        i = j + 1
    return items


def classify(group, emptypos):
    pos = [0]
    counter = [0]

    def peek(skip=True):
        while skip and pos[0] < len(group) and group[pos[0]][0] == 'W':
            pos[0] += 1
        return group[pos[0]] if pos[0] < len(group) else None

    class Ill(Exception):
        pass

    class Uncl(Exception):
        pass

    def node(top):
        assert group[pos[0]][0] == 'L'
        pos[0] += 1
        t = peek()
        label = None
        if t[0] == 'T':
            label = t[1]
            pos[0] += 1
        elif not top:
            raise Ill()
        t = peek(skip=False)
        if label is not None and t[0] == 'W':
            pos[0] += 1
            t2 = peek(skip=False)
            if t2[0] == 'T':
                word = t2[1]
                pos[0] += 1
                t3 = peek()
                if t3[0] != 'R':
                    raise Ill()
                pos[0] += 1
                counter[0] += 1
                return {'n': counter[0], 'w': word, 'p': label, 'e': '--',
                        'm': '--', 'lm': None}
        t = peek()
        if label is not None and t[0] == 'R' and emptypos:
            # "(word)" with an empty POS tag.  The option is only described
            # as "allow empty POS tags": the form with whitespace before the
            # closing bracket, and a bare token at top level, are not judged.
            if group[pos[0] - 1][0] == 'W' or top:
                raise Uncl()
            pos[0] += 1
            counter[0] += 1
            return {'n': counter[0], 'w': label, 'p': 'EMPTY', 'e': '--',
                    'm': '--', 'lm': None}
        kids = []
        while True:
            t = peek()
            if t[0] == 'R':
                pos[0] += 1
                break
            if t[0] == 'T':
                raise Ill()
            kids.append(node(False))
        if not kids:
            raise Ill()
        return {'l': label if label is not None else 'VROOT', 'e': '--',
                'c': kids}
    try:
        root = node(True)
    except Ill:
        return ('ill',)
    except Uncl:
        return ('uncl',)
    if 'c' not in root:
        return ('uncl',)
    return ('wf', {'sid': 0, 'root': root})


def sweep_sequences(K):
    """All sequences over L R W T without two adjacent W or two adjacent T."""
    def rec(seq):
        if seq:
            yield seq
        if len(seq) == K:
            return
        for c in 'LRWT':
            if seq and c in 'WT' and seq[-1] == c:
                continue
            for x in rec(seq + c):
                yield x
    return rec('')


def run_sequence(ctx, fake, classes, emptypos, probe_obj):
    R = ctx.R
    text = render(classes)
    Cur.ctx = ctx
    Cur.case = {'kind': 'seq', 'classes': classes, 'emptypos': emptypos}
    fake.files['<mem>'] = text
    opts = {'quiet': True}
    if emptypos:
        opts['brackets_emptypos'] = True
    if probe_obj is not None:
        probe_obj.on()
    trees = []
    exc = None
    try:
        with common.captured():
            try:
                for t in R.treeinput.brackets('<mem>', 'utf-8', **opts):
                    trees.append(t)
            except Exception as e:
                exc = e
    finally:
        if probe_obj is not None:
            probe_obj.off()
    if probe_obj is not None and probe_obj.violations:
        v = probe_obj.violations[0]
        probe_obj.violations = []
        _fail('automaton-state-invariant', v + ' | input %r' % text)
        return
    items = scan(classes, emptypos)
    # expected: trees for leading wf groups, ValueError at the first ill one
    exp_trees = []
    must_raise = False
    unjudged_error = False
    for it in items:
        if it[0] == 'wf':
            exp_trees.append(it[1])
        elif it[0] == 'ill':
            must_raise = True
            break
        elif it[0] == 'uncl':
            exp_trees.append(None)      # may or may not yield; never judged
            unjudged_error = True       # ... and may be rejected
        elif it[0] == 'open':
            must_raise = True
            break
    got = []
    for t in trees:
        defects, m = model.snapshot(t)
        got.append((defects, m, t))
    # align: unclassified groups yield a childless "tree" or nothing
    gi = 0
    for e in exp_trees:
        if e is None:
            if gi < len(got) and not got[gi][2].children:
                gi += 1
            continue
        if gi >= len(got):
            if unjudged_error and isinstance(exc, ValueError):
                break
            if isinstance(exc, ValueError) and not must_raise:
                _fail('bracket-well-formed-group-rejected',
                      'input %r: %r' % (text, exc))
            elif not must_raise or exc is None:
                _fail('bracket-well-formed-group-lost',
                      'input %r: %d trees yielded, exception %r'
                      % (text, len(got), exc))
            else:
                _fail('bracket-well-formed-group-lost-before-error',
                      'input %r: well-formed group before the ill-formed one '
                      'was not yielded' % text)
            return
        defects, m, t = got[gi]
        gi += 1
        em = model.from_spec(e['root'])
        if defects or model.canon(m, 'wp') != model.canon(em, 'wp'):
            _fail('bracket-group-decoded-into-other-tree',
                  'input %r: yielded %s (%s), group is %s'
                  % (text, model.show(m, 'w') if m else None, defects[:2],
                     model.show(em, 'w')))
            return
        ctx.stratum('sweep: well-formed group decoded')
    if gi < len(got):
        d, m, t = got[gi]
        _fail('bracket-tree-from-ill-formed-input',
              'input %r: extra tree %s' % (text, model.show(m, 'w')
                                           if m and not d else d))
        return
    if must_raise:
        if not isinstance(exc, ValueError):
            mech = 'bracket-ill-formed-group-accepted'
            if items and items[-1][0] == 'open' and \
                    not any(it[0] == 'ill' for it in items):
                mech = 'bracket-unterminated-group-silently-dropped'
            _fail(mech,
                  'input %r: outcome %r, %d trees' % (text, exc, len(got)))
            return
        if items and items[-1][0] == 'open' and \
                not any(it[0] == 'ill' for it in items):
            ctx.stratum('sweep: unterminated group rejected')
        else:
            ctx.stratum('sweep: ill-formed group rejected')
    elif exc is not None:
        if unjudged_error and isinstance(exc, ValueError):
            ctx.stratum('sweep: unclassified group rejected (unjudged)')
        else:
            _fail('bracket-raises-without-ill-formed-group',
                  'input %r: %r' % (text, exc))
            return
    closed = any(it[0] in ('wf', 'ill', 'uncl') for it in items)
    ctx.case(classes + ('+' if emptypos else ''), nontrivial=closed)


def shard(ctx):
    install(ctx.R)
    R = ctx.R
    quick = ctx.quick()
    pr = AutomatonProbe(R, ctx)
    # ---- (A) treebanks -------------------------------------------------------------------
    for i in ctx.indices(ctx.pick(3200, 400000)):
        rng = ctx.rng('bank', i)
        fmt = ['export', 'brackets', 'discobrackets', 'tigerxml'][i // ctx.nshards % 4]
        case = draw_case(rng, fmt, quick)
        run_case(ctx, case, pr if (pr.ok and rng.random() < 0.5) else None)
        if i < 4:
            ctx.sample({'format': fmt, 'options': case['opts'],
                        'file options': case['enc_opts'],
                        'first tree': model.show(model.from_spec(
                            case['bank'][0]['root']), 'w')}, 4)
    for i in ctx.indices(ctx.pick(2, 16)):
        # very large bracket files (one per format in the quick tier)
        rng = ctx.rng('huge', i)
        fmt = ('brackets', 'discobrackets')[i % 2]
        case = {'fmt': fmt, 'enc_opts': {'layout': 'line'},
                'opts': {'quiet': True}, 'sep': '-', 'layout_seed': 0,
                'huge': True, 'big': True,
                'bank': make_bank(rng, fmt, False, '-', quick, unispace=False,
                                  big=True)}
        run_case(ctx, case, None)
    for i in ctx.indices(ctx.pick(300, 30000)):
        cross_format(ctx, ctx.rng('cross', i))
    for i in ctx.indices(ctx.pick(300, 20000)):
        rootless(ctx, ctx.rng('rootless', i), i)
    # ---- (B) token-class sweep ---------------------------------------------------------------
    K = ctx.pick(9, 12)
    fake = FakeIO(R.treeinput.io)
    R.treeinput.io = fake
    try:
        j = 0
        for classes in sweep_sequences(K):
            j += 1
            if not ctx.mine(j):
                continue
            use_probe = pr if (pr.ok and len(classes) <= 9) else None
            run_sequence(ctx, fake, classes, False, use_probe)
            if len(classes) <= 7:
                run_sequence(ctx, fake, classes, True, None)
        if ctx.shard == 0:
            ctx.sum('sweep_sequences_total', j)
            ctx.sample({'sweep': 'all class sequences up to length %d' % K,
                        'e.g.': render('LLTWTRR')})
    finally:
        R.treeinput.io = fake.real
    ctx.hook('automaton states probed', pr.count)
    if ROOT_DECORATED[0]:
        ctx.stratum('outermost bracket with a decorated label',
                    ROOT_DECORATED[0])
    for p in sorted(pr.pairs):
        ctx.add('automaton_pairs', '%s/%s' % p)


def replay(ctx, case):
    install(ctx.R)
    R = ctx.R
    pr = AutomatonProbe(R, ctx)
    if case['kind'] == 'bank':
        run_case(ctx, case, pr if pr.ok else None)
    elif case['kind'] == 'rootless':
        rootless(ctx, None, 0, case)
    elif case['kind'] == 'seq':
        fake = FakeIO(R.treeinput.io)
        R.treeinput.io = fake
        try:
            run_sequence(ctx, fake, case['classes'], case['emptypos'],
                         pr if pr.ok else None)
        finally:
            R.treeinput.io = fake.real
    else:
        cross_format(ctx, ctx.rng('replay'))

"""C05 -- crossing-branch removal: boyd_split + raising (DESIGN 5/C05).

Contracts on the real transform.boyd_split and transform.raising keep the OLD
snapshots; the expectation is a set-based recursive reference on the *input*
snapshot ("keep the maximal contiguous run of processed children that contains
the head child, float the rest to the next constituent above")."""
from collections import Counter

from . import probe, common, contracts, gen, model

PROPERTY = 'C05'
LEVEL = 'exploration'
RULE = ('trees built through the Tree API (child lists shuffled); heads set '
        'directly (all/random assignments), by negra_mark_heads from random '
        'edge labels, or by the rule presets; optional root_attach first; '
        'complete sweep of all tree shapes up to 5 (quick) / 6 (thorough) '
        'tokens x head assignments (all assignments for shapes up to 4 / 5 '
        'tokens, 2 / 6 random ones above) plus random trees to 40 tokens with '
        'gap degree up to n/2; non-trivial = input gap degree >= 1; distinct '
        '= distinct canonical tree incl. head flags')
ASSUMPTIONS = ['ref_continuify in this file is the set-based reading of '
               'property clause (ii)',
               'split nodes of one original constituent are identified by '
               '(label, block yield), with multiplicities for identical '
               'unary chains']
WATCHDOG = {'quick': 600, 'thorough': 3600}
LONG_SENTENCES = 3      # floor for the stratum the runner adds (gen.maybe_long)
PIPELINE_CASES = {'quick': 500, 'thorough': 20000}   # vt/pipeline.py
MIN = {'quick': {'distinct': 1000,
                 'hooks': {'transform.boyd_split': 3000,
                           'transform.raising': 3000},
                 'strata': {'gapdeg>=2': 200, 'discontinuous head child': 200,
                            'continuous input': 300}},
       'thorough': {'distinct': 50000,
                    'hooks': {'transform.boyd_split': 150000}}}


class Cur(object):
    ctx = None
    spec = None
    case = None
    pre_split = None       # snapshot before boyd_split (with head flags)
    first = None           # snapshot before the whole pipeline


def _fail(mech, detail):
    Cur.ctx.fail('C05:' + mech, Cur.case, detail)


# ---- set-based reference -------------------------------------------------------

def ref_continuify(node):
    """Process `node` (model tree, mutated).  Returns the list of floated
    items.  Afterwards node and everything below it is continuous."""
    items = []
    head_item = None
    for c in list(node.children):
        if c.children:
            floated = ref_continuify(c)
            items.append(c)
            items.extend(floated)
        else:
            items.append(c)
        if c.head:
            head_item = c
    for it in items:
        it.parent = None
    node.children = []
    items.sort(key=lambda x: x.first())
    runs = []
    last = None
    for it in items:
        nums = it.nums()
        if runs and nums[0] == last + 1:
            runs[-1].append(it)
        else:
            runs.append([it])
        last = nums[-1]
    keep = None
    for r in runs:
        if any(it is head_item for it in r):
            keep = r
    if keep is None:
        raise ValueError('no head child below %s' % node.label)
    floated = []
    for r in runs:
        if r is keep:
            for it in r:
                node.add(it)
        else:
            floated.extend(r)
    return floated


def all_continuous(m):
    return all(model.gapdeg_node(n) == 0 for n in m.nodes())


# ---- contracts -----------------------------------------------------------------

def pre_snap(args, kw):
    return model.snapshot(args[0], expect_parent_none=False)


def post_boyd(old, result, exc, args, kw):
    if old is None:
        return
    defects0, before = old
    if defects0:
        return
    if not heads_ok(before):
        if Cur.case.get('heads', 'direct') != 'direct':
            bad = [n for n in before.nodes() if n.children and
                   sum(1 for c in n.children if c.head) != 1]
            _fail('head-marking-leaves-constituent-without-unique-head',
                  'after %s the constituent %s has head flags %r | %s'
                  % (Cur.case['heads'], bad[0].label if bad else '?',
                     [c.head for c in bad[0].kids()] if bad else None,
                     model.show(before, '')))
            return
        Cur.ctx.stratum('skipped: head-marking prerequisite not met')
        return          # documented prerequisite (head marking) not met
    if exc is not None:
        _fail('boyd_split-raises', 'raised %r on %s' % (exc,
                                                        model.show(before, '')))
        return
    if result is not args[0]:
        _fail('boyd_split-returns-other-node', 'returned another node')
        return
    defects, after = model.snapshot(result, expect_parent_none=False)
    if defects:
        _fail('boyd_split-ill-formed', '; '.join(defects) + ' | input '
              + model.show(before, ''))
        return
    Cur.pre_split = before
    # (iii) one continuous same-labelled node per block, numbered in order,
    # exactly one of them the head block (the one holding the head child's
    # own head part)
    exp = Counter()
    for n in before.nodes():
        if not n.children:
            continue
        blocks = model.runs(n.nums())
        if len(blocks) == 1:
            exp[(n.label, tuple(blocks[0]), False, None, None, n.head)] += 1
        else:
            hp = head_part(n)
            for i, b in enumerate(blocks):
                exp[(n.label, tuple(b), True, i + 1, hp[0] in b, n.head)] += 1
    got = Counter()
    T = Cur.ctx.R.trees
    for x in after.nodes():
        if not x.children:
            continue
        sp = bool(x.attrs.get('split'))
        got[(x.label, tuple(x.nums()), sp,
             x.attrs.get('block_number') if sp else None,
             bool(x.attrs.get('head_block')) if sp else None,
             x.ref.data.get('head'))] += 1
        try:
            lab = T.get_label(x.ref, boyd_split_marking=True,
                              boyd_split_numbering=True)
        except Exception as exc:
            _fail('boyd_split-output-label', 'the marking / numbering output '
                  'options raise on block node %r: %r' % (x.label, exc))
            return
        want = x.label + ('*%s' % x.attrs.get('block_number') if sp else '')
        if lab != want:
            _fail('boyd_split-output-label', 'decorated label %r, expected %r'
                  % (lab, want))
            return
    if exp != got:
        missing = sorted((exp - got).items(), key=repr)[:3]
        extra = sorted((got - exp).items(), key=repr)[:3]
        kinds = set()
        for (k, _) in missing + extra:
            kinds.add(k)
        mech = 'boyd_split-blocks'
        if Counter(k[:2] for k in exp.elements()) == \
                Counter(k[:2] for k in got.elements()):
            mech = 'boyd_split-block-attributes'
        _fail(mech, '(label, yield, split, block_number, head_block, head): '
              'missing %r, unexpected %r | input %s | output %s'
              % (missing, extra, model.show(before, ''),
                 model.show(after, '')))
        return
    if model.token_seq(after, 'wpe') != model.token_seq(before, 'wpe'):
        _fail('boyd_split-tokens-changed', 'token sequence changed')
        return


def head_part(n):
    """Token numbers of the part of n that carries its head: for a token the
    token; for a constituent the block (maximal run of its yield) containing
    the head part of its head child."""
    if not n.children:
        return [n.num]
    hc = [c for c in n.children if c.head]
    hp = head_part(hc[0])
    for b in model.runs(n.nums()):
        if hp[0] in b:
            return b
    raise RuntimeError('unreachable')


def heads_ok(m):
    """Pre-condition of boyd_split: exactly one head child per constituent."""
    return all(sum(1 for c in n.children if c.head) == 1
               for n in m.nodes() if n.children) and \
        all(n.head is not None for n in m.nodes())


def post_raising(old, result, exc, args, kw):
    before = Cur.pre_split
    Cur.pre_split = None
    if old is None or before is None:
        return
    if exc is not None:
        _fail('raising-raises', 'raised %r' % (exc,))
        return
    if result is not args[0]:
        _fail('raising-returns-other-node', 'returned another node')
        return
    defects, after = model.snapshot(result, expect_parent_none=False)
    if defects:
        _fail('raising-ill-formed', '; '.join(defects) + ' | input '
              + model.show(before, ''))
        return
    if not all_continuous(after):
        bad = [n for n in after.nodes() if model.gapdeg_node(n) > 0][0]
        _fail('result-discontinuous', 'node %s covers %r | input %s | output '
              '%s' % (bad.label, bad.nums(), model.show(before, ''),
                      model.show(after, '')))
        return
    if model.token_seq(after, 'wpe') != model.token_seq(before, 'wpe'):
        _fail('tokens-changed', 'token sequence changed')
        return
    if model.label_multiset(after) != model.label_multiset(before):
        _fail('label-multiset-changed', '%r -> %r'
              % (dict(model.label_multiset(before)),
                 dict(model.label_multiset(after))))
        return
    exp = before.copy()
    try:
        floated = ref_continuify(exp)
    except ValueError as e:
        Cur.ctx.notes.append('reference not applicable: %s' % e)
        return
    if floated:
        raise RuntimeError('reference floated material out of the root')
    if model.canon(after, 'wpe') != model.canon(exp, 'wpe'):
        _fail('differs-from-reference', 'input %s | output %s | reference %s'
              % (model.show(before, ''), model.show(after, ''),
                 model.show(exp, '')))
        return
    if all_continuous(before) and \
            model.canon(after, 'wpeh') != model.canon(before, 'wpeh'):
        _fail('continuous-input-changed', 'input %s | output %s'
              % (model.show(before, ''), model.show(after, '')))
        return
    # every surviving original node is the *same object* as before
    gd = model.gapdeg(before)
    Cur.ctx.stratum('gapdeg>=2' if gd >= 2 else
                    'continuous input' if gd == 0 else 'gapdeg=1')
    if any(c.head and c.children and model.gapdeg_node(c) > 0
           for n in before.nodes() for c in n.children):
        Cur.ctx.stratum('discontinuous head child')
    if any(model.gapdeg_node(n) > 0 and n.parent is not None and
           model.gapdeg_node(n.parent) > 0 and not n.head
           for n in before.nodes() if n.children):
        Cur.ctx.stratum('discontinuous node inside discontinuous parent, non-head')
    Cur.ctx.case(model.canon(before, 'ph'), nontrivial=gd > 0)
    if gd >= 2:
        Cur.ctx.sample({'input': model.show(before, ''),
                        'output': model.show(after, '')}, 3)


def install(R):
    contracts.attach(R.transform, 'boyd_split', pre_snap, post_boyd)
    contracts.attach(R.transform, 'raising', pre_snap, post_raising)


def run_case(ctx, case, rng):
    """case = {spec, heads: direct|negra|preset:negra|preset:ptb,
               root_attach: bool}"""
    R = ctx.R
    Cur.ctx, Cur.case, Cur.pre_split = ctx, case, None
    live = common.live_tree(ctx, case['spec'], rng)
    tr = R.transform
    ntok = len(gen.tokens_of(case['spec']['root']))
    try:
        with common.captured():
            with probe.step_budget(3000000 * max(1, ntok // 20) ** 3):
                if case.get('root_attach'):
                    live = tr.root_attach(live)
                h = case['heads']
                if h == 'negra':
                    live = tr.negra_mark_heads(live)
                elif h.startswith('preset:'):
                    live = tr.mark_heads_by_rules(live,
                                                  mark_heads_preset=h[7:])
                live = tr.boyd_split(live)
                live = tr.raising(live)
    except probe.StepBudgetExceeded:
        ctx.fail('C05:does-not-terminate', case, 'step budget exceeded in '
                 'head marking / boyd_split / raising')
    except Exception:
        pass
    ctx.stratum('heads ' + case['heads'])
    if case.get('root_attach'):
        ctx.stratum('root_attach first')


def shard(ctx):
    install(ctx.R)
    pools = gen.Pools()
    nmax = ctx.pick(5, 6)
    all_upto = ctx.pick(4, 5)
    k_random = ctx.pick(2, 6)
    i = 0
    for n in range(1, nmax + 1):
        for shape, used in gen.all_shapes(list(range(1, n + 1)),
                                          1 if n <= 4 else 0):
            i += 1
            if not ctx.mine(i):
                continue
            rng = ctx.rng('sweep', i)
            base = gen.shape_to_spec(shape, rng, pools)
            if n <= all_upto:
                specs = list(gen.all_head_assignments(base))
            else:
                import copy
                specs = [gen.assign_heads(rng, copy.deepcopy(base))
                         for _ in range(k_random)]
            for spec in specs:
                run_case(ctx, {'kind': 'c05', 'spec': spec, 'heads': 'direct',
                               'root_attach': False}, rng)
            ctx.stratum('sweep shapes')
    for i in ctx.indices(ctx.pick(20000, 300000)):
        rng = ctx.rng('rand', i)
        n = rng.choice([4, 5, 6, 8, 10, 14]) if rng.random() < 0.7 \
            else rng.randint(2, 40)
        n = gen.maybe_long(rng, n, 0.002)
        spec = gen.tree(rng, n, pools, max_arity=rng.choice([2, 3, 4, 6]),
                        p_unary=rng.choice([0, 0.1, 0.25]),
                        moves=rng.choice([0, 1, 1, 2, 3, 5, 8]),
                        root_pieces=rng.choice([1, 1, 2, 3]))
        gen.spice(rng, spec, ['cat-keyword', 'cat-apostrophe', 'cat-punct-char',
                              'cat-digit-first', 'pos-punct-char',
                              'pos-apostrophe', 'word-keyword',
                              'cat-decorated', 'cat-digit-last', 'edge-odd'],
                  root_labels=['TOP', 'ROOT', 'S'])
        heads = rng.choice(['direct', 'direct', 'negra', 'negra',
                            'preset:negra', 'preset:ptb'])
        if heads.startswith('preset:') and rng.random() < 0.6:
            allcats = ['CO', 'DL', 'ISU', 'QL', 'CH', 'S', 'VP', 'NP', 'PP',
                       'AP', 'INTJ', 'PRN', 'FRAG', 'UCP', 'SBAR', 'ADVP',
                       'WHNP', 'MPN']
            for node in gen.walk(spec['root']):
                if 'c' in node and node is not spec['root']:
                    node['l'] = rng.choice(allcats)
        if heads in ('direct', 'negra') and rng.random() < 0.04:
            # constituents whose label is the empty string (API-built trees,
            # TIGER-XML cat=""): block nodes carry the label of their node,
            # whatever it is
            inner = [x for x in gen.walk(spec['root'])
                     if 'c' in x and x is not spec['root']]
            for x in rng.sample(inner, min(len(inner), 2)):
                x['l'] = ''
            if inner:
                ctx.stratum('constituent whose label is the empty string')
        if rng.random() < 0.3:
            gen.uproot(rng, spec, 0.2)
        if heads == 'direct':
            gen.assign_heads(rng, spec, rng.choice(['random', 'first', 'last']))
        run_case(ctx, {'kind': 'c05', 'spec': spec, 'heads': heads,
                       'root_attach': rng.random() < 0.4}, rng)
    # ---- inside sequences of other transformations (vt/pipeline.py) ----
    from . import pipeline
    pipeline.run(ctx, Cur, ('boyd_split', 'raising'), 1500, 60000)



def replay(ctx, case):
    if case.get('kind') == 'pipeline':
        install(ctx.R)
        from . import pipeline
        pipeline.run_case(ctx, Cur, case, ctx.rng('replay'))
        return
    install(ctx.R)
    run_case(ctx, case, ctx.rng('replay'))

"""C06 -- grammar extraction is faithful to the treebank (DESIGN 5/C06).
Contract on the real grammar.extract: OLD = copy of the counts; post = the
delta must be exactly one occurrence per constituent / token as derived from
the set-based model, and each observed linearization is re-applied to the
children's blocks."""
from collections import Counter

from . import common, contracts, gen, lcfrs, model

PROPERTY = 'C06'
LEVEL = 'exploration'
RULE = ('random treebanks (1..8 trees, 1..40 tokens, gap degree 0..n/2, unary '
        'nodes, small label pools so that rules and sibling labels repeat, '
        'duplicated trees so that counts exceed 1) built through the Tree '
        'API; one grammar/lexicon accumulated over the whole treebank; '
        'non-trivial = treebank with a discontinuous node and some rule count '
        '> 1; distinct = distinct canonical treebank')
ASSUMPTIONS = ['vt/lcfrs.py ref_rule: set-based rule of a node (labels by '
               'least token, blocks = maximal runs)']
WATCHDOG = {'quick': 600, 'thorough': 3600}
LONG_SENTENCES = 3      # floor for the stratum the runner adds (gen.maybe_long)
MIN = {'quick': {'distinct': 300,
                 'hooks': {'grammar.extract': 3000,
                           'grammaranalysis.fan_out': 3000},
                 'strata': {'re-extraction after in-place transformation': 300,
                            'rule count>1': 300, 'fan-out>=3': 100,
                            'fan-out>=10': 50,
                            'repeated sibling labels': 300}},
       'thorough': {'distinct': 20000,
                    'hooks': {'grammar.extract': 150000}}}


class Cur(object):
    ctx = None
    case = None


def _fail(mech, detail):
    Cur.ctx.fail('C06:' + mech, Cur.case, detail)


def pre_extract(args, kw):
    tree, grammar, lexicon = args[0], args[1], args[2]
    defects, m = model.snapshot(tree)
    return defects, m, lcfrs.flatten(grammar), lcfrs.flatten_lex(lexicon)


def post_extract(old, result, exc, args, kw):
    if old is None:
        return
    defects, m, g0, l0 = old
    if defects:
        return
    if exc is not None:
        _fail('extract-raises', 'raised %r on %s' % (exc, model.show(m, '')))
        return
    grammar, lexicon = args[1], args[2]
    if result is not grammar:
        _fail('extract-return', 'does not return the grammar passed in')
    g1, l1 = lcfrs.flatten(grammar), lcfrs.flatten_lex(lexicon)
    dg = g1 - g0
    if (g0 - g1):
        _fail('extract-decreases-counts', 'counts went down: %r'
              % (list((g0 - g1).items())[:3],))
        return
    dl = l1 - l0
    if (l0 - l1):
        _fail('extract-decreases-lexicon', 'lexicon counts went down')
        return
    exp_g, exp_l = lcfrs.ref_extract(m)
    if dg != exp_g:
        missing = list((exp_g - dg).items())[:2]
        extra = list((dg - exp_g).items())[:2]
        mech = 'extract-rules'
        if Counter((f, l) for (f, l, v) in dg.elements()) == \
                Counter((f, l) for (f, l, v) in exp_g.elements()):
            mech = 'extract-vertical-context'
        elif Counter(f for (f, l, v) in dg.elements()) == \
                Counter(f for (f, l, v) in exp_g.elements()):
            mech = 'extract-linearization'
        _fail(mech, 'tree %s | missing %r | unexpected %r'
              % (model.show(m, ''), missing, extra))
        return
    if dl != exp_l:
        _fail('extract-lexicon', 'lexicon delta %r, tokens %r'
              % (list((dl - exp_l).items())[:3],
                 list((exp_l - dl).items())[:3]))
        return
    # re-apply every observed linearization to the node's children
    seen = set()
    for n in m.nodes():
        if not n.children:
            continue
        f, lin, v = lcfrs.ref_rule(n)
        # the lin stored by the code for this node equals the reference (just
        # checked as multisets); re-application is checked on the stored one
        kid_blocks = [model.runs(k.nums()) for k in n.kids()]
        for (ff, ll, vv) in dg:
            if ff == f and vv == v and (ff, ll, vv) not in seen and ll == lin:
                blocks, problems = lcfrs.apply_lin(ll, kid_blocks)
                if problems or blocks != model.runs(n.nums()):
                    _fail('linearization-does-not-reproduce-blocks',
                          'node %s: lin %r gives %r (%s), blocks %r'
                          % (n.label, ll, blocks, problems,
                             model.runs(n.nums())))
                    return
                Cur.ctx.hook('lin re-applied')
                break
        fo = len(lin)
        Cur.ctx.stratum('fan-out>=3' if fo >= 3 else 'fan-out=%d' % fo)
        if fo >= 10:
            Cur.ctx.stratum('fan-out>=10')
        labs = [k.label for k in n.kids()]
        if len(set(labs)) < len(labs):
            Cur.ctx.stratum('repeated sibling labels')


def post_fanout(old, result, exc, args, kw):
    lin = args[0]
    if exc is not None:
        _fail('fan_out-raises', '%r on %r' % (exc, lin))
        return
    c = Counter(i for arg in lin for (i, _) in arg)
    exp = [len(lin)] + [c[i] for i in range(len(c))]
    if sorted(c) != list(range(len(c))):
        return
    if list(result) != exp:
        _fail('fan_out', 'fan_out(%r) = %r, expected %r' % (lin, result, exp))


def install(R):
    contracts.attach(R.grammar, 'extract', pre_extract, post_extract)
    contracts.attach(R.grammaranalysis, 'fan_out', None, post_fanout)


def make_bank(rng, quick):
    pools = gen.Pools(cats=rng.choice([['S', 'NP', 'VP'], ['S', 'NP', 'VP', 'PP'],
                                       gen.CATS]),
                      pos=rng.choice([['NN', 'VV', 'ART'], gen.POS]),
                      words=rng.choice([['a', 'b', 'c', 'Der'], gen.WORDS_ASCII]))
    k = rng.randint(1, 4 if quick else 8)
    bank = []
    for j in range(k):
        if bank and rng.random() < 0.35:
            import copy
            t = copy.deepcopy(rng.choice(bank))
            t['sid'] = j + 1
            bank.append(t)
            continue
        if rng.random() < 0.02:
            bank.append(gen.comb_tree(rng, rng.randint(10, 12), pools,
                                      sid=j + 1))
            continue
        n = rng.choice([1, 2, 3, 4, 6, 9]) if rng.random() < 0.6 \
            else rng.randint(1, 16 if quick else 40)
        n = gen.maybe_long(rng, n, 0.002)
        bank.append(gen.tree(rng, n, pools, max_arity=rng.choice([2, 3, 5, 8]),
                             p_unary=rng.choice([0, 0.15, 0.3]),
                             moves=rng.choice([0, 0, 1, 2, 3, 6]),
                             sid=j + 1))
        gen.spice(rng, bank[-1], ['cat-apostrophe', 'pos-apostrophe',
                                  'cat-keyword', 'cat-punct-char',
                                  'pos-punct-char', 'pos-decorated',
                                  'cat-digit-first', 'cat-at-x',
                                  'word-unicode', 'word-keyword',
                                  'word-percent', 'word-unispace',
                                  'cat-decorated', 'cat-digit-last',
                                  'word-bracket', 'word-python-literal',
                                  'word-equals-tag', 'pos-keyword',
                                  'word-empty'],
                  root_labels=['TOP', 'ROOT', 'S'])
        if rng.random() < 0.4:
            gen.uproot(rng, bank[-1], 0.3)
    return bank


def run_bank(ctx, bank, rng):
    R = ctx.R
    Cur.ctx = ctx
    Cur.case = {'kind': 'bank', 'bank': bank}
    grammar, lexicon = {}, {}
    for spec in bank:
        live = common.live_tree(ctx, spec, rng)
        try:
            with common.captured():
                R.grammar.extract(live, grammar, lexicon)
        except Exception:
            pass
        if rng.random() < 0.25:
            # the same tree objects, changed in place, extracted again: what
            # was computed for the old shape must not survive
            try:
                with common.captured():
                    t2 = R.transform.root_attach(live)
                    if rng.random() < 0.5:
                        t2 = R.transform.negra_mark_heads(t2)
                        t2 = R.transform.boyd_split(t2)
                        t2 = R.transform.raising(t2)
                    R.grammar.extract(t2, {}, {})
                ctx.stratum('re-extraction after in-place transformation')
            except Exception:
                pass
    # treebank-level consequences
    nodes, roots, lex, tags = lcfrs.treebank_rule_stats(bank)
    per_lhs = Counter()
    maxcount = 0
    for (f, l), c in lcfrs.rule_counts(grammar).items():
        per_lhs[f[0]] += c
        maxcount = max(maxcount, c)
        try:
            fo = R.grammaranalysis.fan_out(l)
        except Exception:
            fo = None
    if per_lhs != nodes:
        _fail('counts-per-lhs', 'rule counts per LHS %r, node counts per '
              'label %r' % (dict(per_lhs), dict(nodes)))
    if lcfrs.flatten_lex(lexicon) != lex:
        _fail('lexicon-totals', 'lexicon differs from token counts')
    disc = any(model.gapdeg(model.from_spec(s['root'])) > 0 for s in bank)
    try:
        cf = R.grammaranalysis.is_contextfree(grammar)
        ctx.hook('is_contextfree')
        if cf != (not disc):
            _fail('is_contextfree', 'is_contextfree=%r but treebank '
                  'discontinuous=%r' % (cf, disc))
    except Exception as exc:
        _fail('is_contextfree-raises', repr(exc))
    if maxcount > 1:
        ctx.stratum('rule count>1')
    ctx.case([s['root'] for s in bank], nontrivial=disc and maxcount > 1)
    if disc and maxcount > 2:
        ctx.sample({'bank': [model.show(model.from_spec(s['root']), '')
                             for s in bank][:3], 'max_count': maxcount}, 3)


def shard(ctx):
    install(ctx.R)
    quick = ctx.quick()
    for i in ctx.indices(ctx.pick(12000, 150000)):
        rng = ctx.rng('bank', i)
        run_bank(ctx, make_bank(rng, quick), rng)


def replay(ctx, case):
    install(ctx.R)
    run_bank(ctx, case['bank'], ctx.rng('replay'))

"""C09 -- written grammar and lexicon files decode to exactly the grammar in
memory (DESIGN 5/C09).  Files written by the real grammaroutput.pmcfg / rcg /
lopar (API) and by real `treetools grammar` processes are decoded by the
independent decoders of vt/codec.py; RCG files additionally by the tool's own
reader (contract on grammarinput.rcg)."""
import copy
import os
from collections import Counter

from . import codec, common, contracts, gen, lcfrs, model

PROPERTY = 'C09'
LEVEL = 'exploration'
RULE = ('grammars built from random treebanks (1..6 trees, gap degree to n/2 '
        'or continuous for LoPar, repeated rules => counts > 1, ambiguous '
        'words, capitalised / lower-case / non-ASCII words) by an independent '
        'reference extraction, raw and binarized by the real binarize in '
        'random modes; written as PMCFG, RCG, LoPar with and without '
        'lex_in_grammar, encodings utf-8 / latin-1; the same through real '
        '`treetools grammar` processes incl. RCG files as input of the '
        'grammar command; non-trivial = grammar with >= 4 rules, a count > 1 '
        'and (for PMCFG/RCG) a rule of fan-out >= 2; distinct = distinct '
        '(treebank, mode, format, options, encoding)')
ASSUMPTIONS = ['decoders of vt/codec.py: PMCFG fun/lin/count triples with '
               'shared sN sequences, rparse RCG clauses, LoPar gram / lex / '
               'start / oc / OC',
               'labels contain no parentheses and no trailing digit (RCG), '
               'words are disjoint from labels (lex_in_grammar)']
WATCHDOG = {'quick': 900, 'thorough': 5400}
MIN = {'quick': {'distinct': 600,
                 'hooks': {'grammaroutput.pmcfg': 400, 'grammaroutput.rcg': 400,
                           'grammaroutput.lopar': 300,
                           'grammarinput.rcg': 300, 'cli.grammar': 60},
                 'strata': {'lex_in_grammar': 200, 'lopar refused': 50,
                            'latin-1': 100, 'binarized': 300,
                            'cli rcg as input': 5,
                            'cli source other than plain utf-8 export': 20, 'ambiguous word': 300,
                            'cli binarized markov': 10, 'fan-out >= 10': 30,
                            'cli treebank of more than 1000 sentences': 8,
                            'grammar and lexicon dicts re-filled for several writes': 100,
                            'lopar: production both continuous and '
                            'discontinuous': 10}},
       'thorough': {'distinct': 30000, 'hooks': {'cli.grammar': 1200}}}


class Cur(object):
    ctx = None
    case = None


def _fail(mech, detail):
    Cur.ctx.fail('C09:' + mech, Cur.case, detail)


def install(R):
    for f in ('pmcfg', 'rcg', 'lopar'):
        contracts.attach(R.grammaroutput, f, None, None)
    contracts.attach(R.grammarinput, 'rcg', None, None)


def to_repo_grammar(rules):
    """Counter{(func, lin, vert): n} -> {func: {lin: {vert: n}}}"""
    g = {}
    for (f, l, v), n in rules.items():
        g.setdefault(f, {}).setdefault(l, {})[v] = n
    return g


def to_repo_lexicon(lex):
    out = {}
    for (w, t), n in lex.items():
        out.setdefault(w, Counter())[t] += n
    return out


def make_bank(rng, cont, enc, parens=False):
    words = ['haus', 'Haus', 'der', 'Der', 'sagt', 'x', 'Maria', 'und', 'Zug',
             'zug', 'a', 'B']
    if rng.random() < 0.5:
        # first character vs. "title case": acronyms, inner capitals, digits
        words += ['NATO', 'McDonald', '3M', 'USA', "O'neil", 'Ab-cd', 'eBay',
                  '-Zeichen', 'ÄB']
    if parens and rng.random() < 0.3:
        # the lexicon files carry any word (only lexical rules inside an RCG
        # grammar would be garbled by brackets, as the writer warns)
        words += ['(', ')', '-LRB-', '-RRB-', '[', 'f(x)']
    if rng.random() < 0.3:
        # words that look like markup of some file format
        words += ['#', '#1', '%%', '//', ':', '-->']
    if rng.random() < 0.5:
        words += ['Übung', 'übung', 'café', 'Ärger']
        if enc == 'utf-8' and rng.random() < 0.5:
            words += ['Жук', '日本']
        if enc == 'utf-8' and rng.random() < 0.5:
            # the same word spelled with composed and with decomposed
            # characters, a ligature and its letters, full-width letters:
            # different words for the tool, whatever Unicode calls equivalent
            words += ['Caf\u00e9', 'Cafe\u0301', '\u00c5', 'A\u030a',
                      '\ufb01n', 'fin', '\uff21\uff22', 'AB']
    pools = gen.Pools(words=words,
                      cats=rng.choice([['S', 'NP', 'VP'], ['S', 'NP', 'VP', 'PP', 'CNP'],
                                       ['S', '1N', '2V', 'NP', "N'", 'A,B', 'A:B',
                                        '@NX', 'VROOT']]),
                      pos=rng.choice([['NN', 'VV', 'ART'], ['NN', 'VVFIN', 'ART', '$.', 'KON'],
                                      ['NN', 'VVFIN', '$,', '$.', 'P+D',
                                       'X:Y']]))
    bank = []
    for j in range(rng.randint(1, 6)):
        if bank and rng.random() < 0.3:
            import copy
            t = copy.deepcopy(rng.choice(bank))
            t['sid'] = j + 1
            bank.append(t)
            continue
        if not cont and rng.random() < 0.04:
            bank.append(gen.comb_tree(rng, rng.randint(10, 12), pools,
                                      sid=j + 1))
            continue
        n = rng.randint(1, 10)
        bank.append(gen.tree(rng, n, pools, max_arity=rng.choice([2, 3, 4]),
                             p_unary=rng.choice([0, 0.2]),
                             moves=0 if cont else rng.choice([0, 1, 2, 4]),
                             sid=j + 1,
                             root_pieces=rng.choice([1, 1, 2])))
    if rng.random() < 0.25:
        # tokens spelled exactly like their tag (PTB punctuation, UH)
        for s_ in bank:
            for t_ in gen.tokens_of(s_['root']):
                if rng.random() < 0.3:
                    t_['w'] = t_['p']
    if not cont and rng.random() < 0.4 and bank:
        # the same productions once continuous and once discontinuous: a copy
        # of a continuous tree with two token positions exchanged
        import copy
        base = gen.tree(rng, rng.randint(4, 8), pools, max_arity=3,
                        p_unary=0.1, moves=0, sid=len(bank) + 1)
        twin = copy.deepcopy(base)
        twin['sid'] = len(bank) + 2
        toks = sorted(gen.tokens_of(twin['root']), key=lambda t: t['n'])
        i = rng.randrange(len(toks) - 2)
        toks[i]['n'], toks[i + 2]['n'] = toks[i + 2]['n'], toks[i]['n']
        pair = [base, twin]
        if rng.random() < 0.5:
            pair.reverse()
        bank.extend(pair)
    return bank


def reference(bank):
    rules = Counter()
    lex = Counter()
    for spec in bank:
        r, l = lcfrs.ref_extract(model.from_spec(spec['root']))
        rules.update(r)
        lex.update(l)
    return rules, lex


def expected_counts(grammar):
    return lcfrs.rule_counts(grammar)


def check_files(ctx, fmt, prefix, enc, grammar_counts, lex, lig, via):
    """grammar_counts: Counter{(func, lin): n} expected; lex Counter."""
    def rd(ext):
        p = '%s.%s' % (prefix, ext)
        if not os.path.exists(p):
            return None
        return common.read(p, enc)
    if fmt == 'pmcfg':
        text = rd('pmcfg')
        if text is None:
            return _fail('pmcfg-file-missing', via)
        try:
            got = codec.pmcfg_decode(text)
        except Exception as e:
            return _fail('pmcfg-does-not-decode', '%s: %r | %r' % (via, e,
                                                                   text[:200]))
    elif fmt == 'rcg':
        text = rd('rcg')
        if text is None:
            return _fail('rcg-file-missing', via)
        try:
            got = codec.rcg_decode(text)
        except Exception as e:
            return _fail('rcg-does-not-decode', '%s: %r | %r' % (via, e,
                                                                 text[:200]))
    else:
        text = rd('gram')
        if text is None:
            return _fail('lopar-file-missing', via)
        got_cf = codec.lopar_gram_decode(text)
        want_cf = Counter()
        for (f, l), n in grammar_counts.items():
            want_cf[f] += n
        if got_cf != want_cf:
            return _fail('lopar-gram-differs', '%s: %s' % (via, diff(got_cf,
                                                                     want_cf)))
        got = None
    want = Counter(grammar_counts)
    if lig and fmt != 'lopar':
        for (w, t), n in lex.items():
            want[((t, w), (((0, 0),),))] += n
    if got is not None and got != want:
        mech = '%s-grammar-differs' % fmt
        if set(got) == set(want):
            mech = '%s-counts-differ' % fmt
        elif lig and Counter({k: v for k, v in got.items()
                              if len(k[0]) != 2 or k[1] != (((0, 0),),)}) == \
                Counter(grammar_counts):
            mech = '%s-lexical-rules-differ' % fmt
        return _fail(mech, '%s: %s' % (via, diff(got, want)))
    # lexicon
    lt = rd('lex')
    if lig and fmt != 'lopar':
        if lt is not None and via == 'API':
            ctx.notes.append('a .lex file exists although lex_in_grammar')
    else:
        if lt is None:
            return _fail('%s-lex-file-missing' % fmt, via)
        try:
            gl = codec.lex_decode(lt)
        except Exception as e:
            return _fail('%s-lex-does-not-decode' % fmt, '%s: %r' % (via, e))
        if gl != lex:
            return _fail('%s-lexicon-differs' % fmt, '%s: %s' % (via, diff(gl, lex)))
    if fmt == 'lopar':
        lhs = Counter()
        rhs = set()
        for (f, l), n in grammar_counts.items():
            lhs[f[0]] += n
            rhs.update(f[1:])
        want_start = Counter({k: v for k, v in lhs.items() if k not in rhs})
        gs = codec.pairs_decode(rd('start') or '')
        if gs != want_start:
            return _fail('lopar-start-symbols', '%s: file %r, expected %r'
                         % (via, dict(gs), dict(want_start)))
        lower, upper = Counter(), Counter()
        for (w, t), n in lex.items():
            (upper if w[0].isupper() else lower)[t] += n
        go, gO = codec.pairs_decode(rd('oc') or ''), \
            codec.pairs_decode(rd('OC') or '')
        if go != lower or gO != upper:
            return _fail('lopar-open-class-files', '%s: oc %r (expected %r), '
                         'OC %r (expected %r)' % (via, dict(go), dict(lower),
                                                  dict(gO), dict(upper)))
    return True


def diff(got, want):
    missing = list((want - got).items())[:2]
    extra = list((got - want).items())[:2]
    return 'missing %r | unexpected %r' % (missing, extra)


def zlib_pick(case, n):
    import zlib
    return zlib.crc32(repr([case.get('fmt'), case.get('enc'), case.get('lig'),
                            len(case.get('bank') or []),
                            case.get('gramtype'), case.get('mode')])
                      .encode('utf-8')) % n


def run_api(ctx, case, rng):
    R = ctx.R
    Cur.ctx, Cur.case = ctx, case
    bank, fmt, enc = case['bank'], case['fmt'], case['enc']
    lig = case.get('lig', False)
    rules, lex = reference(bank)
    if fmt != 'lopar' and zlib_pick(case, 12) == 5:
        # a grammar without lexicon: the lexicon file is written all the
        # same, and says so (it is empty)
        lex = Counter()
        ctx.stratum('grammar written with an empty lexicon')
    grammar = to_repo_grammar(rules)
    if case.get('mode') is not None:
        mode, reo = case['mode']
        fn = R.grammar.reordering_none if reo == 'none' \
            else R.grammar.reordering_optimal
        with common.captured():
            grammar = R.grammar.binarize(grammar, reordering=fn,
                                         markov_opts=dict(mode) if mode
                                         else None)
        ctx.stratum('binarized')
    counts = expected_counts(grammar)
    lexicon = to_repo_lexicon(lex)
    disc = any(len(l) > 1 for (f, l) in counts)
    both = set(f for (f, l) in counts if len(l) > 1) & \
        set(f for (f, l) in counts if len(l) == 1)
    if both and fmt == 'lopar':
        ctx.stratum('lopar: production both continuous and discontinuous')
    prefix = ctx.path('.gram')
    params = {'lex_in_grammar': True} if lig else {}
    exc = None
    before = (copy.deepcopy(grammar), copy.deepcopy(lexicon))
    if zlib_pick(case, 4) == 1:
        # an unrelated file has the very name of the prefix
        common.write(prefix, 'notes on this grammar\n')
        ctx.stratum('grammar prefix is the name of an existing file')
    for ext in ('pmcfg', 'rcg', 'lex', 'gram', 'start', 'oc', 'OC'):
        common.preexisting(ctx, prefix + '.' + ext, rng, 0.15)
    try:
        with common.captured():
            getattr(R.grammaroutput, fmt)(grammar, lexicon, prefix, enc,
                                          **params)
    except Exception as e:
        exc = e
    if fmt == 'lopar' and disc:
        if isinstance(exc, ValueError):
            ctx.stratum('lopar refused')
        else:
            _fail('lopar-writes-non-context-free-grammar', 'outcome %r' % (exc,))
        return finish(ctx, case, counts, lex, disc)
    if exc is not None:
        _fail('%s-writer-raises' % fmt, repr(exc))
        return
    if check_files(ctx, fmt, prefix, enc, counts, lex, lig, 'API') is not True:
        return
    # RCG: the tool's own reader gives the grammar back
    if fmt == 'rcg' and not lig:
        try:
            with common.captured():
                g2, l2 = R.grammarinput.rcg(prefix, enc)
        except Exception as e:
            mech = 'rcg-own-reader-raises'
            if enc != 'utf-8':
                mech = 'rcg-own-reader-ignores-encoding'
            _fail(mech, '%r (files written with encoding %s)' % (e, enc))
            return
        got = lcfrs.rule_counts(g2)
        if got != counts:
            _fail('rcg-own-reader-grammar-differs', diff(got, counts))
            return
        gl = lcfrs.flatten_lex(l2)
        if gl != lex:
            mech = 'rcg-own-reader-lexicon-differs'
            if enc != 'utf-8' and any(ord(ch) > 127 for (w, t) in
                                      (set(gl) ^ set(lex)) for ch in w):
                mech = 'rcg-own-reader-ignores-encoding'
            _fail(mech, diff(gl, lex))
            return
    # the grammar and the lexicon are the caller's: after the files are written
    # they are what they were, so that the same objects can be written again
    # (another format, another place) or binarized afterwards
    ctx.hook('grammar and lexicon compared after the writer call')
    if (grammar, lexicon) != before:
        what = 'grammar' if grammar != before[0] else 'lexicon'
        if what == 'grammar':
            d = diff(expected_counts(grammar), expected_counts(before[0]))
        else:
            d = diff(lcfrs.flatten_lex(lexicon), lcfrs.flatten_lex(before[1]))
        _fail('%s-writer-changes-the-%s-it-was-given%s'
              % (fmt, what, '-lex_in_grammar' if lig else ''),
              'after the call vs before: %s' % d)
        return
    finish(ctx, case, counts, lex, disc)


def run_folds(ctx, case, rng):
    """The caller keeps one grammar dict and one lexicon dict and re-fills them
    for every part of its data (folds, treebank sections): each write gives
    back the grammar and lexicon of that part."""
    R = ctx.R
    Cur.ctx, Cur.case = ctx, case
    grammar, lexicon = {}, {}
    for k, bank in enumerate(case['banks']):
        rules, lex = reference(bank)
        grammar.clear()
        lexicon.clear()
        grammar.update(to_repo_grammar(rules))
        lexicon.update(to_repo_lexicon(lex))
        counts = expected_counts(grammar)
        fmt = case['fmts'][k % len(case['fmts'])]
        prefix = ctx.path('.fold%d' % k)
        try:
            with common.captured():
                getattr(R.grammaroutput, fmt)(grammar, lexicon, prefix,
                                              'utf-8', **case['params'])
        except Exception as e:
            _fail('%s-writer-raises' % fmt, 'part %d: %r' % (k + 1, e))
            return
        if check_files(ctx, fmt, prefix, 'utf-8', counts, lex,
                       bool(case['params']), 'API (dicts re-filled, part %d)'
                       % (k + 1)) is not True:
            return
    ctx.stratum('grammar and lexicon dicts re-filled for several writes')
    ctx.case(['folds', case['fmts'], sorted(case['params']),
              [[model.canon(model.from_spec(s_['root']), 'w') for s_ in b]
               for b in case['banks']]])


def finish(ctx, case, counts, lex, disc):
    if case.get('lig'):
        ctx.stratum('lex_in_grammar')
    if case['enc'] != 'utf-8':
        ctx.stratum(case['enc'])
    if any(len(l) >= 10 or any(sum(1 for arg in l for (i, _) in arg if i == k)
                               >= 10 for k in range(len(f) - 1))
           for (f, l) in counts):
        ctx.stratum('fan-out >= 10')
    words = Counter(w for (w, t) in lex)
    if any(v > 1 for v in words.values()):
        ctx.stratum('ambiguous word')
    ctx.stratum('format ' + case['fmt'])
    big = any(v > 1 for v in counts.values())
    ctx.case([case['fmt'], case.get('mode'), case.get('lig'), case['enc'],
              case.get('via'), [s['root'] for s in case['bank']]],
             nontrivial=len(counts) >= 4 and big and
             (disc or case['fmt'] == 'lopar'))


def run_cli(ctx, case, rng):
    """treetools grammar SRC DEST gramtype ... and rcg files as input."""
    R = ctx.R
    Cur.ctx, Cur.case = ctx, case
    bank, fmt, enc = case['bank'], case['fmt'], case['enc']
    lig = case.get('lig', False)
    sfmt, senc = case.get('sfmt', 'export'), case.get('senc', 'utf-8')
    text = {'export': lambda: codec.export_encode(bank),
            'brackets': lambda: codec.brackets_encode(bank),
            'discobrackets': lambda: codec.discobrackets_encode(bank),
            'tigerxml': lambda: codec.tigerxml_encode(bank, encoding=senc)
            }[sfmt]()
    src = ctx.path('.' + sfmt + ('.gz' if case.get('sgz') else ''))
    if case.get('sgz'):
        import gzip
        with gzip.open(src, 'wb') as f:
            f.write(text.encode(senc))
    else:
        common.write(src, text, senc)
    prefix = ctx.path('.cli')
    if not case.get('sgz') and zlib_pick(case, 4) == 0:
        # the grammar is named after the treebank it comes from, which lies
        # next to it: tb.export -> tb.export.rcg, tb.export.lex
        prefix = src
        ctx.stratum('grammar prefix is the name of an existing file')
    gramtype = case.get('gramtype', 'treebank')
    args = ['grammar', src, prefix, gramtype, '--src-format', sfmt,
            '--src-enc', senc, '--dest-format', fmt, '--dest-enc', enc,
            '--src-opts', 'quiet'] + case.get('sopts', [])
    if sfmt != 'export' or senc != 'utf-8' or case.get('sgz'):
        ctx.stratum('cli source other than plain utf-8 export')
    if lig:
        # a flag may be given with a value (key:value is the documented
        # form of an option)
        form = ('lex_in_grammar', 'lex_in_grammar', 'lex_in_grammar:1',
                'lex_in_grammar:true')[zlib_pick(case, 4)]
        args += ['--dest-opts', form]
        if ':' in form:
            ctx.stratum('cli: lex_in_grammar given with a value')
    if zlib_pick(case, 3) == 1:
        args += ['--verbose']
        ctx.stratum('cli with --verbose')
    mk = case.get('markov')
    if mk is not None:
        args += ['--markov'] + mk
    rc, out, err = common.cli(args)
    ctx.hook('cli.grammar')
    rules, lex = reference(bank)
    counts = Counter()
    for (f, l, v), n in rules.items():
        counts[(f, l)] += n
    if gramtype != 'treebank':
        # the driver must hand exactly these options to binarize: compare with
        # the API binarization (itself monitored by C07/C08) of the reference
        # grammar; documented defaults v=1, h=2 when a key is not given
        mode = None
        if mk is not None:
            mode = {}
            for o in mk:
                if ':' in o:
                    k_, v_ = o.split(':')
                    mode[k_] = int(v_)
                else:
                    mode[o] = True
            mode.setdefault('v', 1)
            mode.setdefault('h', 2)
        fn = R.grammar.reordering_none if gramtype == 'leftright' \
            else R.grammar.reordering_optimal
        with common.captured():
            g2 = R.grammar.binarize(to_repo_grammar(rules), reordering=fn,
                                    markov_opts=mode)
        counts = expected_counts(g2)
        ctx.stratum('cli binarized' + (' markov' if mk is not None else ''))
    disc = any(len(l) > 1 for (f, l) in counts)
    if fmt == 'lopar' and disc:
        if rc == 0:
            _fail('cli-lopar-writes-non-context-free-grammar', 'exit 0')
        else:
            ctx.stratum('lopar refused')
        return finish(ctx, case, counts, lex, disc)
    if rc != 0:
        _fail('cli-exit-status', 'exit %r: %s' % (rc, common.tail(err)))
        return
    if check_files(ctx, fmt, prefix, enc, counts, lex, lig, 'CLI') is not True:
        return
    if fmt == 'rcg' and not lig and gramtype == 'treebank':
        # the written grammar as input of the grammar command
        out2 = ctx.path('.again')
        rc, out, err = common.cli(['grammar', prefix, out2, 'treebank',
                                   '--src-format', 'rcg', '--src-enc', enc,
                                   '--dest-format', 'pmcfg', '--dest-enc',
                                   enc])
        ctx.hook('cli.grammar')
        if rc != 0:
            mech = 'cli-rcg-input-exit-status'
            if enc != 'utf-8':
                mech = 'rcg-own-reader-ignores-encoding'
            _fail(mech, 'exit %r: %s' % (rc, common.tail(err)))
            return
        try:
            got = codec.pmcfg_decode(common.read(out2 + '.pmcfg', enc))
            gl = codec.lex_decode(common.read(out2 + '.lex', enc))
        except Exception as e:
            _fail('cli-rcg-input-output-does-not-decode', repr(e))
            return
        if got != counts or gl != lex:
            mech = 'cli-rcg-input-grammar-differs'
            if not got and not gl:
                mech = 'cli-rcg-input-yields-empty-grammar'
            _fail(mech, 'grammar: %s | lexicon: %s' % (diff(got, counts),
                                                       diff(gl, lex)))
            return
        ctx.stratum('cli rcg as input')
    case['via'] = 'cli'
    finish(ctx, case, counts, lex, disc)


def run_synthetic(ctx, rng, pool):
    """Grammars made of enumerated canonical rules (all interleaving
    patterns), not only those a treebank happens to contain."""
    R = ctx.R
    fmt = rng.choice(['pmcfg', 'rcg'])
    enc = 'utf-8'
    g = {}
    labs = ['B', 'C', 'D', 'E']
    for _ in range(rng.randint(4, 14)):
        rank, lin = pool[rng.randrange(len(pool))]
        rot = rng.randrange(4)
        f = (rng.choice(['A', 'S', 'X']),) + tuple(labs[(rot + i) % 4]
                                                    for i in range(rank))
        g.setdefault(f, {}).setdefault(lin, {})['VERT'] = rng.randint(1, 4)
    case = {'kind': 'synthetic', 'fmt': fmt, 'enc': enc, 'lig': False,
            'bank': [], 'grammar': [[list(f), [[list(x) for x in a] for a in l],
                                     c['VERT']] for f in g for l, c in g[f].items()]}
    Cur.ctx, Cur.case = ctx, case
    lex = Counter({('w', 'B'): 2, ('v', 'C'): 1})
    counts = lcfrs.rule_counts(g)
    prefix = ctx.path('.syn')
    try:
        with common.captured():
            getattr(R.grammaroutput, fmt)(g, to_repo_lexicon(lex), prefix, enc)
    except Exception as e:
        _fail('%s-writer-raises' % fmt, repr(e))
        return
    if check_files(ctx, fmt, prefix, enc, counts, lex, False, 'API') is not True:
        return
    if fmt == 'rcg':
        try:
            with common.captured():
                g2, l2 = R.grammarinput.rcg(prefix, enc)
        except Exception as e:
            _fail('rcg-own-reader-raises', repr(e))
            return
        if lcfrs.rule_counts(g2) != counts:
            _fail('rcg-own-reader-grammar-differs',
                  diff(lcfrs.rule_counts(g2), counts))
            return
    ctx.stratum('synthetic grammar ' + fmt)
    ctx.case(['syn', fmt, case['grammar']], nontrivial=True)


def _continuous(spec):
    def rec(n):
        if 'c' not in n:
            return [n['n']]
        out = []
        for c in n['c']:
            out += rec(c)
        return out
    def ok(n):
        if 'c' not in n:
            return True
        ys = sorted(rec(n))
        return ys == list(range(ys[0], ys[-1] + 1)) and all(ok(c)
                                                            for c in n['c'])
    return ok(spec['root'])


def draw(rng, modes):
    fmt = rng.choice(['pmcfg', 'pmcfg', 'rcg', 'rcg', 'lopar'])
    enc = rng.choice(['utf-8', 'utf-8', 'latin-1'])
    cont = fmt == 'lopar' and rng.random() < 0.8
    lig = fmt != 'lopar' and rng.random() < 0.35
    case = {'kind': 'api', 'fmt': fmt, 'enc': enc, 'lig': lig,
            'bank': make_bank(rng, cont, enc, parens=not lig)}
    if rng.random() < 0.5:
        m = modes[rng.randrange(len(modes))]
        case['mode'] = [m, rng.choice(['none', 'optimal'])]
    return case


def shard(ctx):
    from .oracle_c07 import all_modes
    install(ctx.R)
    modes = all_modes()
    for i in ctx.indices(ctx.pick(2500, 400000)):
        rng = ctx.rng('api', i)
        case = draw(rng, modes)
        run_api(ctx, case, rng)
        if i < 3:
            ctx.sample({'format': case['fmt'], 'mode': case.get('mode'),
                        'lex_in_grammar': case['lig'], 'encoding': case['enc'],
                        'trees': [model.show(model.from_spec(s['root']), 'w')
                                  for s in case['bank']][:2]}, 3)
    pool = []
    for rank in (2, 3, 4):
        pool.extend((rank, l) for l in lcfrs.enum_lins(rank, 6))
    for i in ctx.indices(ctx.pick(1500, 250000)):
        run_synthetic(ctx, ctx.rng('syn', i), pool)
    for i in ctx.indices(ctx.pick(160, 5000)):
        rng = ctx.rng('cli', i)
        case = draw(rng, modes)
        case.pop('mode', None)
        case['kind'] = 'cli'
        case['senc'] = rng.choice(['utf-8', 'utf-8', 'latin-1']) \
            if case['enc'] == 'latin-1' else 'utf-8'
        cont_bank = all(_continuous(s) for s in case['bank'])
        paren_words = any(ch in t['w'] for s in case['bank']
                          for t in gen.tokens_of(s['root']) for ch in '()')
        case['sfmt'] = rng.choice(['export', 'export', 'tigerxml'] + (
            [] if paren_words else
            ['discobrackets'] + (['brackets'] * 2 if cont_bank else [])))
        case['sgz'] = case['sfmt'] != 'tigerxml' and rng.random() < 0.15
        if case['sfmt'] in ('brackets', 'discobrackets') \
                and case['fmt'] != 'lopar' and rng.random() < 0.6:
            # a one-token sentence written without a constituent above the
            # token, `(UH Yes)`: the token is counted in the lexicon
            tk = rng.choice(gen.tokens_of(rng.choice(case['bank'])['root']))
            case['bank'].insert(
                rng.randrange(len(case['bank']) + 1),
                {'sid': len(case['bank']) + 1,
                 'root': {'n': 1, 'w': tk['w'], 'p': tk['p'], 'e': '--',
                          'm': '--', 'lm': '--'}})
            ctx.stratum('cli: bracket source with a sentence that is a '
                        'single tagged token')
        if rng.random() < 0.3:
            case['sopts'] = [rng.choice(['continuous', 'brackets_firstid:7'])]
        r = rng.random()
        if r > 0.85:
            # Markovization parameters next to the grammar type `treebank`:
            # the treebank grammar is the unbinarized one
            case['gramtype'] = 'treebank'
            case['markov'] = rng.choice([['v:1', 'h:1'], ['v:2'], ['nofanout'],
                                         ['h:0', 'nofanout']])
            ctx.stratum('cli: treebank grammar with --markov')
        if r < 0.5:
            case['gramtype'] = rng.choice(['leftright', 'optimal'])
            if rng.random() < 0.7:
                mk = []
                if rng.random() < 0.7:
                    mk.append('v:%d' % rng.randint(0, 2))
                if rng.random() < 0.7:
                    mk.append('h:%d' % rng.randint(0, 2))
                if rng.random() < 0.3 or not mk:
                    mk.append('nofanout')
                case['markov'] = mk
        run_cli(ctx, case, rng)
    for i in ctx.indices(ctx.pick(400, 20000)):
        rng = ctx.rng('folds', i)
        case = {'kind': 'folds',
                'banks': [make_bank(rng, False, 'utf-8')
                          for _ in range(rng.randint(2, 4))],
                'fmts': rng.choice([['pmcfg'], ['rcg'], ['pmcfg', 'rcg']]),
                'params': rng.choice([{}, {'lex_in_grammar': True},
                                      {'lex_in_grammar': True}])}
        run_folds(ctx, case, rng)
    # treebanks of realistic length through the command line (whatever the
    # driver does per so-many sentences: progress output, batches, flushes)
    for i in ctx.indices(ctx.pick(16, 160)):
        rng = ctx.rng('clibig', i)
        fmt = rng.choice(['pmcfg', 'rcg'])
        bank = []
        want = rng.randint(1001, 1300) if rng.random() < 0.7 \
            else rng.randint(2001, 2300)
        while len(bank) < want:
            for s_ in make_bank(rng, False, 'utf-8'):
                s_['sid'] = len(bank) + 1
                bank.append(s_)
        case = {'kind': 'cli', 'fmt': fmt, 'enc': 'utf-8', 'lig': False,
                'bank': bank, 'sfmt': 'export', 'senc': 'utf-8',
                'gramtype': rng.choice(['treebank', 'leftright', 'leftright',
                                        'optimal'])}
        if case['gramtype'] != 'treebank' and rng.random() < 0.3:
            case['markov'] = ['v:%d' % rng.randint(1, 2),
                              'h:%d' % rng.randint(1, 2)]
        ctx.stratum('cli treebank of more than 1000 sentences')
        run_cli(ctx, case, rng)


def replay(ctx, case):
    install(ctx.R)
    rng = ctx.rng('replay')
    if case['kind'] == 'synthetic':
        R = ctx.R
        Cur.ctx, Cur.case = ctx, case
        g = {}
        for f, l, c in case['grammar']:
            g.setdefault(tuple(f), {})[tuple(tuple(tuple(x) for x in a)
                                             for a in l)] = {'VERT': c}
        prefix = ctx.path('.syn')
        lex = Counter({('w', 'B'): 2, ('v', 'C'): 1})
        getattr(R.grammaroutput, case['fmt'])(g, to_repo_lexicon(lex), prefix,
                                              'utf-8')
        check_files(ctx, case['fmt'], prefix, 'utf-8', lcfrs.rule_counts(g),
                    lex, False, 'API')
    elif case['kind'] == 'api':
        run_api(ctx, case, rng)
    elif case['kind'] == 'folds':
        run_folds(ctx, case, rng)
    else:
        run_cli(ctx, case, rng)

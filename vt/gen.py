"""Seeded workload generators: tree specs (see model.py), treebanks, words,
labels.  Everything returns plain JSON-able data."""
import itertools

# ---- inventories -----------------------------------------------------------
# The punctuation inventories are the *documented* ones (README/usage text and
# trees.py constants); they are written out here so that a change of the
# inventories in the repository is observed as a behavioural difference.
QUOTES = ['"', "'", "''", "`", "``"]
COMMA = [".", ",", ";", "?", "!", "--", ":", "-", "/", "..."]
BRACKET_NAMES = {"(": "LRB", "-LRB-": "LRB", "[": "LSB", "-LSB-": "LSB",
                 "{": "LCB", "-LCB-": "LCB", ")": "RRB", "-RRB-": "RRB",
                 "]": "RSB", "-RSB-": "RSB", "}": "RCB", "-RCB-": "RCB"}
PAIRPUNCT = QUOTES + list(BRACKET_NAMES)
PUNCT = PAIRPUNCT + COMMA

CATS = ['S', 'NP', 'VP', 'PP', 'AP', 'AVP', 'CNP', 'CS', 'VZ', 'NM', 'SBAR',
        'CVP', 'MPN', 'CO', 'ISU']
POS = ['NN', 'NE', 'ART', 'VVFIN', 'VAFIN', 'ADJA', 'ADJD', 'ADV', 'APPR',
       'KON', 'PPER', 'PRELS', 'VVPP', 'CARD', 'PTKZU', 'VVINF']
EDGES = ['HD', 'NK', 'SB', 'OA', 'MO', 'OC', 'CJ', 'CD', 'PD', 'AC', '--',
         '--', 'HD', 'NK']
WORDS_ASCII = ['Haus', 'der', 'sagt', 'Fritz', 'und', 'Maria', 'gestern',
               'dass', 'er', 'kommt', 'sehr', 'gut', 'Who', 'did', 'tell',
               'likes', 'x', 'B', 'a1', 'Zeitung', 'liest', 'im', 'Garten']
WORDS_TABSTOP = ['abcdefg', 'abcdefgh', 'abcdefghijklmno', 'abcdefghijklmnop',
                 'abcdefghijklmnopq', 'abcdefghijklmnopqrstuvwx',
                 'abcdefghijklmnopqrstuvwxyzabcdefg']
WORDS_XML = ['a<b', 'R&D', '"q"', "it's", '>', '<', '&', '&amp;', "<'\">",
             'x&y;z', '"', "'"]
WORDS_NONASCII = ['Straße', 'naïve', 'Übung', 'café',
                  'äöü', '¿qué', '£']
WORDS_BEYOND_LATIN1 = ['日本', '€', 'Жук',
                       'αβ', '—']
WORDS_HASH = ['#1', '#42', '#7', '#1234', '#', '%%', '%%x', '#BOT', '##500']
WORDS_UNISPACE = ['20\u00a0000', 'x\u3000y', 'a\u2009b', '\u00a0']
WORDS_PAREN = ['(', ')', '[', ']', '{', '}', 'a(b)c', '-LRB-', '-RRB-',
               'f(x)', '((']
# words that resemble punctuation (or the names brackets are replaced by) but
# are none of the documented punctuation tokens
WORDS_LOOKALIKE = ['LRB', 'RRB', 'LSB', 'RSB', 'LCB', 'RCB', 'lrb', '-lrb-',
                   'COMMA', "'s", "''s", '--x', '....', '$,', '$(', ',,',
                   '-LRB', 'LRB-',
                   # runs of punctuation characters that are no token of the
                   # documented inventory; words that begin like one
                   '?!', '.,', ':-', '-/', '!?', "'ll", "'90s", '[sic]',
                   '.5', '-3']
MORPHS = ['--', 'Nom.Sg.Masc', '3.Sg.Pres.Ind', 'Pos', 'Dat.Pl.Fem', '--']


def pick(rng, seq):
    return seq[rng.randrange(len(seq))]


class Pools(object):
    """What the leaves and labels are drawn from."""

    def __init__(self, words=None, pos=None, cats=None, edges=None,
                 morphs=None, lemma=True, p_punct=0.0, punct=None,
                 root_label='VROOT', none_fields=0.0):
        self.words = words or WORDS_ASCII
        self.pos = pos or POS
        self.cats = cats or CATS
        self.edges = edges or EDGES
        self.morphs = morphs or MORPHS
        self.lemma = lemma
        self.p_punct = p_punct
        self.punct = punct or PUNCT
        self.root_label = root_label
        self.none_fields = none_fields

    def token(self, rng, slot):
        if self.p_punct and rng.random() < self.p_punct:
            w = pick(rng, self.punct)
            p = '$' + w[0] if rng.random() < 0.5 else pick(rng, self.pos)
        else:
            w = pick(rng, self.words)
            p = pick(rng, self.pos)
            if self.p_punct and rng.random() < 0.08:
                w = pick(rng, WORDS_LOOKALIKE)
                LOOKALIKE[0] += 1
        t = {'n': slot, 'w': w, 'p': p, 'e': pick(rng, self.edges),
             'm': pick(rng, self.morphs),
             'lm': (w.lower() if rng.random() < 0.5 else '--')
             if self.lemma else '--'}
        if self.none_fields:
            for f in ('m', 'lm', 'e'):
                if rng.random() < self.none_fields:
                    t[f] = None
        return t

    def cons(self, rng, kids):
        return {'l': pick(rng, self.cats), 'e': pick(rng, self.edges),
                'c': kids}


def _cut(rng, slots, k):
    cuts = sorted(rng.sample(range(1, len(slots)), k - 1))
    out = []
    prev = 0
    for c in cuts + [len(slots)]:
        out.append(slots[prev:c])
        prev = c
    return out


def _shape(rng, slots, pools, max_arity, p_unary, max_chain):
    if len(slots) == 1:
        node = pools.token(rng, slots[0])
    else:
        k = rng.randint(2, min(max_arity, len(slots)))
        node = pools.cons(rng, [_shape(rng, g, pools, max_arity, p_unary,
                                       max_chain)
                                for g in _cut(rng, slots, k)])
    chain = 0
    while chain < max_chain and rng.random() < p_unary:
        node = pools.cons(rng, [node])
        chain += 1
    return node


def renumber(node, order):
    """Replace slot indices by token numbers: order[i] is the slot standing
    at position i+1."""
    pos = {s: i + 1 for i, s in enumerate(order)}

    def go(n):
        if 'c' in n:
            for c in n['c']:
                go(c)
        else:
            n['n'] = pos[n['n']]
    go(node)
    return node


def disorder(rng, n, moves):
    order = list(range(n))
    for _ in range(moves):
        if n < 2:
            break
        i = rng.randrange(n)
        x = order.pop(i)
        order.insert(rng.randrange(n), x)
    return order


def tree(rng, n, pools=None, max_arity=4, p_unary=0.15, max_chain=3,
         moves=0, root_pieces=None, sid=1, p_root_unary=0.0):
    """A random well-formed tree spec over n tokens.  moves > 0 makes it
    (probably) discontinuous.  The root is a virtual root with
    root_pieces top-level children (default: random 1..3)."""
    pools = pools or Pools()
    if n >= 100:
        # keep the number of constituents of a very long sentence well below
        # 500 (the export format numbers them 500..999)
        p_unary = min(p_unary, 0.12)
        max_chain = min(max_chain, 2)
        p_root_unary = 0.0
    slots = list(range(n))
    if root_pieces is None:
        root_pieces = rng.choice([1, 1, 2, 2, 3])
    r = max(1, min(root_pieces, n))
    groups = _cut(rng, slots, r) if r > 1 else [slots]
    kids = [_shape(rng, g, pools, max_arity, p_unary, max_chain)
            for g in groups]
    root = {'l': pools.root_label, 'e': '--', 'c': kids}
    while rng.random() < p_root_unary:
        root = {'l': pools.root_label, 'e': '--',
                'c': [dict(root, l=pick(rng, pools.cats))]}
    renumber(root, disorder(rng, n, moves))
    return {'sid': sid, 'root': root}


def same_sentence(rng, spec, pools=None, sid=None, **kw):
    """Another random tree over exactly the tokens of spec (same words, tags,
    lemmas, morphology, in the same order): two readings of one sentence."""
    toks = sorted(tokens_of(spec['root']), key=lambda t: t['n'])
    twin = tree(rng, len(toks), pools, sid=spec['sid'] if sid is None else sid,
                **kw)
    for t, u in zip(toks, sorted(tokens_of(twin['root']),
                                 key=lambda t: t['n'])):
        for k in ('w', 'p', 'lm', 'm'):
            if k in t:
                u[k] = t[k]
            else:
                u.pop(k, None)
    return twin


LONG = [0]
LOOKALIKE = [0]
ATNODES = [0]


def maybe_long(rng, n, p=0.004, lo=120, hi=220):
    """Sentence length n, or - rarely - the length of a very long sentence.
    Uses its own random stream so that the other draws of the caller do not
    move.  The number of long sentences drawn is reported as a stratum by
    the runner.  (Not longer than 220 tokens: the export format numbers the
    constituents of a sentence 500..999.)"""
    import random as _random
    r = _random.Random(rng.random())
    if r.random() < p:
        LONG[0] += 1
        return r.randint(lo, hi)
    return n


def treebank(rng, k, nmin, nmax, first_sid=1, sid_step=1, **kw):
    out = []
    sid = first_sid
    for _ in range(k):
        out.append(tree(rng, rng.randint(nmin, nmax), sid=sid, **kw))
        sid += sid_step if sid_step else rng.randint(1, 5)
    return out


# ---- complete enumeration of small shapes ----------------------------------

def set_partitions(items):
    """All partitions of a list into non-empty blocks (blocks as lists,
    order of blocks canonical)."""
    if not items:
        yield []
        return
    first, rest = items[0], items[1:]
    for part in set_partitions(rest):
        for i in range(len(part)):
            yield part[:i] + [[first] + part[i]] + part[i + 1:]
        yield [[first]] + part


def all_shapes(nums, unary=0, top=True):
    """All trees (as nested structures) whose leaves are exactly the token
    numbers in nums, children unordered, every internal node with >= 2
    children, plus -- when unary > 0 -- up to `unary` unary nodes in total
    inserted above any node.  Leaves are ints, internal nodes are tuples.
    Yields (shape, unary_used)."""
    nums = list(nums)
    if len(nums) == 1:
        base = [(nums[0], 0)]
    else:
        base = []
        for part in set_partitions(nums):
            if len(part) < 2:
                continue
            for combo in _product_shapes(part, unary):
                kids, used = combo
                base.append((tuple(kids), used))
    for shape, used in base:
        yield shape, used
        s, u = shape, used
        while u < unary:
            s = (s,)
            u += 1
            yield s, u


def _product_shapes(part, unary):
    """All ways of choosing a sub-shape for each block with total unary
    budget."""
    def rec(i, budget):
        if i == len(part):
            yield [], 0
            return
        for sh, used in all_shapes(part[i], budget, top=False):
            for rest, used2 in rec(i + 1, budget - used):
                yield [sh] + rest, used + used2
    return rec(0, unary)


def shape_to_spec(shape, rng=None, pools=None, root_label='VROOT', sid=1,
                  labeler=None):
    """Turn an enumerated shape into a tree spec.  The top node of the shape
    becomes the root (a bare leaf is wrapped)."""
    pools = pools or Pools()
    counter = itertools.count()

    def go(s):
        if isinstance(s, int):
            if rng is not None:
                t = pools.token(rng, s)
            else:
                t = {'n': s, 'w': 'w%d' % s, 'p': 'P%d' % (s % 3),
                     'e': '--', 'm': '--', 'lm': '--'}
            t['n'] = s
            return t
        i = next(counter)
        lab = labeler(i) if labeler else \
            (pick(rng, pools.cats) if rng is not None else 'C%d' % (i % 3))
        edge = pick(rng, pools.edges) if rng is not None else '--'
        return {'l': lab, 'e': edge, 'c': [go(c) for c in s]}

    if isinstance(shape, int):
        shape = (shape,)
    root = go(shape)
    root['l'] = root_label
    root['e'] = '--'
    return {'sid': sid, 'root': root}


def count_nodes(node):
    if 'c' in node:
        return 1 + sum(count_nodes(c) for c in node['c'])
    return 1


def tokens_of(node):
    if 'c' in node:
        out = []
        for c in node['c']:
            out.extend(tokens_of(c))
        return out
    return [node]


def walk(node):
    yield node
    if 'c' in node:
        for c in node['c']:
            for x in walk(c):
                yield x


def uproot(rng, spec, p=0.25, only_tokens=False):
    """Detach random nodes (tokens, or small constituents) and hang them
    directly under the root -- the NeGra/TIGER situation root_attach is for.
    Keeps the tree well formed (never empties a constituent)."""
    root = spec['root']

    def go(node, is_root):
        if 'c' not in node:
            return
        for c in list(node['c']):
            go(c, False)
        if is_root:
            return
        for c in list(node['c']):
            if len(node['c']) <= 1:
                break
            if only_tokens and 'c' in c:
                continue
            if rng.random() < (p if 'c' not in c else p / 3):
                node['c'].remove(c)
                root['c'].append(c)
    go(root, True)
    return spec


def assign_heads(rng, spec, mode='random'):
    """Set the head flag ('h') directly: exactly one head child per
    constituent, every other node False (root included)."""
    def go(node, is_head):
        node['h'] = is_head
        if 'c' in node:
            if mode == 'first':
                k = 0
            elif mode == 'last':
                k = len(node['c']) - 1
            else:
                k = rng.randrange(len(node['c']))
            for i, c in enumerate(node['c']):
                go(c, i == k)
    go(spec['root'], False)
    return spec


def all_head_assignments(spec):
    """Yield copies of spec with every possible head assignment."""
    import copy
    import itertools as it
    cons = [n for n in walk(spec['root']) if 'c' in n]
    for combo in it.product(*[range(len(n['c'])) for n in cons]):
        s = copy.deepcopy(spec)
        cs = [n for n in walk(s['root']) if 'c' in n]
        s['root']['h'] = False
        for n, k in zip(cs, combo):
            for i, c in enumerate(n['c']):
                c['h'] = (i == k)
        yield s


def comb_tree(rng, blocks=10, pools=None, sid=1):
    """A tree with a constituent of `blocks` (>= 10) token blocks: the teeth
    of a comb hang under one node X, the tokens between them under the root
    (two-digit fan-outs: X10, vertical contexts X10, RCG arity suffix 10)."""
    pools = pools or Pools()
    n = 2 * blocks - 1 + rng.choice([0, 1, 2])
    teeth = []
    rest = []
    for i in range(1, n + 1):
        t = pools.token(rng, i)
        t['n'] = i
        if i % 2 == 1 and len(teeth) < blocks:
            teeth.append(t)
        else:
            rest.append(t)
    x = {'l': pick(rng, pools.cats), 'e': 'OC', 'c': teeth}
    if rng.random() < 0.5:
        x = {'l': pick(rng, pools.cats), 'e': 'HD', 'c': [x]}
    return {'sid': sid, 'root': {'l': pools.root_label, 'e': '--',
                                 'c': [x] + rest}}


# ---- hostile inventories ("spice") -----------------------------------------
# Strings with a special role somewhere in the package, by class.  An oracle
# names the classes its property's domain allows; spice() rewrites a few
# labels / tags / words of a finished spec with members of those classes and
# reports which classes it used (the runner turns that into strata).
SPICE = {
    # categories of inner constituents that are keywords elsewhere
    'cat-keyword': ('cat', ['VROOT', 'TOP', 'EMPTY', 'ROOT']),
    # labels that end in the head marker character
    'cat-apostrophe': ('cat', ["N'", "X''", "V'"]),
    'pos-apostrophe': ('pos', ["''", "'", "N'"]),
    # labels that begin with digits / contain characters with a role in some
    # file format or option syntax (no brackets, no trailing digits)
    'cat-digit-first': ('cat', ['1N', '2V']),
    'cat-at-x': ('cat', ['@NX', '@PX']),
    'cat-punct-char': ('cat', ['A,B', 'A:B', 'A#B', 'A*', 'A$', 'A/B', 'a']),
    'pos-punct-char': ('pos', ['$,', '$.', 'P+D', 'X:Y', 'PRP$', 'N,N', '#',
                               '*', '``', 'nn']),
    # tags that the label parser would take apart
    'pos-decorated': ('pos', ['NN-SB', "VVFIN'", 'ADV-1', 'ADV=2']),
    # words
    'word-unicode': ('word', ['Caf\u00e9', 'Cafe\u0301', 'café', 'Å', 'ﬁn',
                              'İstanbul', 'ſ', '\U0001F600',
                              'a​b', 'ＡＢ１', 'של',
                              'Å']),
    'word-typographic-punct': ('word', ['“', '”', '«', '»',
                                        '–', '—', '…', '’',
                                        '‚']),
    'word-keyword': ('word', ['EMPTY', 'VROOT', 'TOP', '--', '-NONE-', '@',
                              '0', '-1']),
    'word-unispace': ('word', WORDS_UNISPACE),
    'word-percent': ('word', ['%', '100%', '%d', '%s%s', '5%-Klausel']),
    # second pass (seeded round 12)
    # labels the label parser takes apart / that end in a digit
    'cat-decorated': ('cat', ['NP-1', 'NP-SBJ-3', 'NP=2-1', 'WHNP-12', 'S=3']),
    'cat-digit-last': ('cat', ['S1', 'VP2', 'X10']),
    'cat-square-bracket': ('cat', ['NP[nom]', 'S{main}', 'X]']),
    # tags that are keywords elsewhere
    'pos-keyword': ('pos', ['--', 'EMPTY', 'None', '0', 'VROOT']),
    # edge labels: leading hyphen, case variants of the NeGra head labels
    'edge-odd': ('edge', ['-', '---', '-PAR', 'hd', 'Hd', 'nk', 'None',
                          'A-B']),
    # a token spelled exactly like its tag (PTB punctuation, UH)
    'word-equals-tag': ('wordtag', None),
    'word-bracket': ('word', ['(', ')', '[', ']', '{', 'f(x)', '-LRB-',
                              '-RRB-', '(', ')']),
    # strings equal to Python literals, in words and in morph / lemma
    'word-python-literal': ('word', ['None', 'True', 'nan', 'null', '0.0',
                                     '1e3', "''"]),
    'morph-python-literal': ('morph', ['None', 'True', 'nan', '0']),
    # the empty word (trees.DEFAULT_WORD; API-built trees, TIGER-XML word="")
    'word-empty': ('word', ['']),
    # a backslash before a bracket or at the end of a word escapes nothing
    'word-backslash': ('word', ['C:\\', '\\', 'a\\', '1\\/2', '\\n']),
}
SPICE_USED = {}


def spice(rng, spec, classes, p=0.25, q=0.3, root_labels=None, sid0=False):
    """With probability p rewrite labels / tags / words of spec (each node with
    probability q) with strings of ONE randomly chosen class of `classes`.
    Uses its own random stream.  Returns the class used or None."""
    import random as _random
    r = _random.Random(rng.random())
    used = None
    if root_labels and r.random() < p:
        spec['root']['l'] = r.choice(root_labels)
        SPICE_USED['root label other than VROOT'] = \
            SPICE_USED.get('root label other than VROOT', 0) + 1
    if sid0 and r.random() < p * 0.6:
        spec['sid'] = 0
        SPICE_USED['sentence id 0'] = SPICE_USED.get('sentence id 0', 0) + 1
    if classes and r.random() < p:
        cls = r.choice(sorted(classes))
        kind, items = SPICE[cls]
        hit = False
        for n in walk(spec['root']):
            if n is spec['root'] or r.random() >= q:
                continue
            if kind == 'cat' and 'c' in n:
                n['l'] = r.choice(items)
                hit = True
            elif kind == 'pos' and 'c' not in n:
                n['p'] = r.choice(items)
                hit = True
            elif kind == 'word' and 'c' not in n:
                n['w'] = r.choice(items)
                if n.get('lm') not in (None, '--'):
                    n['lm'] = n['w']
                hit = True
            elif kind == 'edge':
                n['e'] = r.choice(items)
                hit = True
            elif kind == 'wordtag' and 'c' not in n:
                n['w'] = n['p']
                hit = True
            elif kind == 'morph' and 'c' not in n:
                n['m'] = r.choice(items)
                n['lm'] = r.choice(items)
                hit = True
        if hit:
            used = cls
            SPICE_USED['spice ' + cls] = SPICE_USED.get('spice ' + cls, 0) + 1
    return used

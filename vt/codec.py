"""Independent encoders / decoders of the file formats, written from the format
definitions (Brants 1997 for export, PTB bracketing, the discobracket
docstring, TIGER-XML), never from the repository's readers and writers.
All work on specs (see model.py)."""
import re
import xml.etree.ElementTree as ET

from . import model

# ============================================================ export ==========


def _export_number(root, rng=None, contiguous=True):
    """Assign numbers >= 500 to constituents below the root.  Default: by
    height, left to right (canonical); with rng: any injective assignment in
    500..999 (parents need not be numbered above children)."""
    cons = [n for n in root.nodes() if n.children and n is not root]
    if rng is None:
        cons.sort(key=lambda n: (n.height(), n.first()))
        return {id(n): 500 + i for i, n in enumerate(cons)}
    if contiguous:
        nums = list(range(500, 500 + len(cons)))
    else:
        nums = sorted(rng.sample(range(500, 1000), len(cons)))
    rng.shuffle(nums)
    return {id(n): nums[i] for i, n in enumerate(cons)}


def export_encode(treebank, v4=False, rng=None, header=False, comments=False,
                  secedges=False, shuffle_lines=False, tabs=True,
                  bos_trailer=False, noncontiguous=False, crlf=False,
                  blank_lines=False):
    out = []
    if header:
        out.append('%% created by vt.codec')
        out.append('#FORMAT %d' % (4 if v4 else 3))
        out.append('#BOT ORIGIN')
        out.append('0\tvt\tnothing')
        out.append('#EOT ORIGIN')
        out.append('#BOT WORDTAG')
        out.append('-1\tUNKNOWN\tN')
        out.append('0\t--\tN')
        out.append('#EOT WORDTAG')
    for spec in treebank:
        root = model.from_spec(spec['root'])
        nrng = rng if (rng is not None and (noncontiguous or shuffle_lines)) \
            else None
        numbering = _export_number(root, nrng, contiguous=not noncontiguous)
        bos = '#BOS %d' % spec['sid']
        if bos_trailer:
            bos += ' 2 1019471234 1 %% a comment'
        out.append(bos)
        if blank_lines and rng and rng.random() < 0.5:
            out.append('')

        def line(n):
            parent = 0 if n.parent is root else numbering[id(n.parent)]
            if n.children:
                fields = ['#%d' % numbering[id(n)]]
                if v4:
                    fields.append('--')
                fields += [n.label, n.morph or '--', n.edge or '--',
                           str(parent)]
            else:
                fields = [n.word]
                if v4:
                    fields.append(n.lemma if n.lemma is not None else '--')
                fields += [n.label, n.morph if n.morph is not None else '--',
                           n.edge if n.edge is not None else '--',
                           str(parent)]
            if secedges and rng and numbering and rng.random() < 0.3:
                fields += [rng.choice(['SB', 'OA', 'MO']),
                           str(rng.choice(sorted(numbering.values())))]
            if comments and rng and rng.random() < 0.2:
                fields += ['%%', 'note']
            if tabs:
                sepf = '\t'
                if rng and rng.random() < 0.3:
                    sepf = rng.choice(['\t\t', '\t\t\t', '   ', ' \t'])
                return sepf.join(fields)
            return ' '.join(fields)

        toks = root.toks()
        for t in toks:
            out.append(line(t))
        cons = [n for n in root.nodes() if n.children and n is not root]
        cons.sort(key=lambda n: numbering[id(n)])
        if shuffle_lines and rng:
            rng.shuffle(cons)
        for n in cons:
            out.append(line(n))
        out.append('#EOS %d' % spec['sid'])
        if blank_lines and rng and rng.random() < 0.3:
            out.append('')
    nl = '\r\n' if crlf else '\n'
    return nl.join(out) + nl


def export_decode(text, root_label='VROOT'):
    """Decode export v3/v4 text into a list of specs.  Strict: every parent
    reference must resolve, token lines precede nothing in particular, node
    numbers unique.  Raises ValueError on anything malformed.  Also returns
    per-sentence raw line info through the attribute-free tuple list
    [(spec, info)] when detail=True is not needed -- keep simple: list of
    specs, and `export_decode.last_info` for format obligations."""
    sentences = []
    info = []
    cur = None
    fmt4 = None
    for raw in text.split('\n'):
        ln = raw.rstrip('\r')
        if cur is None:
            if ln.startswith('#FORMAT'):
                fmt4 = ln.split()[1] == '4'
            if ln.startswith('#BOS'):
                cur = {'sid': int(ln.split()[1]), 'lines': []}
            continue
        if ln.startswith('#EOS'):
            if int(ln.split()[1]) != cur['sid']:
                raise ValueError('#EOS %s does not match #BOS %d'
                                 % (ln.split()[1], cur['sid']))
            sentences.append(cur)
            cur = None
            continue
        if ln.strip() == '':
            continue
        cur['lines'].append(ln)
    if cur is not None:
        raise ValueError('unterminated sentence %d' % cur['sid'])
    out = []
    for s in sentences:
        toks = []
        nodes = {}
        order = []
        tabs_ok = True
        for ln in s['lines']:
            if '\t' not in ln:
                tabs_ok = False
            f = ln.split()
            # a comment starts with a field %% *after* the required fields
            for ci in range(5, len(f)):
                if f[ci].startswith('%%'):
                    f = f[:ci]
                    break
            if len(f) < 5:
                raise ValueError('too few fields: %r' % ln)
            is4 = fmt4 if fmt4 is not None else not f[4].isdigit() \
                if len(f) > 5 else False
            if is4:
                word, lemma, pos, morph, edge, parent = f[:6]
            else:
                word, pos, morph, edge, parent = f[:5]
                lemma = None
            parent = int(parent)
            if re.match(r'^#\d{3}$', word):
                num = int(word[1:])
                if num in nodes:
                    raise ValueError('node %d defined twice' % num)
                nodes[num] = {'l': pos, 'e': edge, 'c': [], '_p': parent,
                              '_m': morph}
                order.append(('N', num))
            else:
                t = {'n': len(toks) + 1, 'w': word, 'p': pos, 'e': edge,
                     'm': morph, 'lm': lemma, '_p': parent}
                toks.append(t)
                order.append(('T', t['n']))
        root = {'l': root_label, 'e': '--', 'c': []}
        for item in toks + [nodes[k] for k in sorted(nodes)]:
            p = item.pop('_p')
            if p == 0:
                root['c'].append(item)
            elif p in nodes:
                nodes[p]['c'].append(item)
            else:
                raise ValueError('parent %d does not exist' % p)
        for k, n in nodes.items():
            n.pop('_m', None)
            if not n['c']:
                raise ValueError('constituent %d without children' % k)
        # acyclic / all reachable
        reach = list(model.from_spec(root).nodes()) if root['c'] else []
        if len(reach) != 1 + len(toks) + len(nodes):
            raise ValueError('not all nodes reachable from the root (cycle?)')
        out.append({'sid': s['sid'], 'root': root})
        info.append({'order': order, 'numbers': sorted(nodes),
                     'tabs_ok': tabs_ok, 'lines': s['lines']})
    export_decode.last_info = info
    return out


export_decode.last_info = []


# ============================================================ brackets ========

PAREN_NAMES = {"(": "LRB", ")": "RRB", "[": "LSB", "]": "RSB",
               "{": "LCB", "}": "RCB", "-LRB-": "LRB", "-RRB-": "RRB",
               "-LSB-": "LSB", "-RSB-": "RSB", "-LCB-": "LCB", "-RCB-": "RCB"}


def replace_parens(s):
    """The documented name mapping (applied as substring replacement, longest
    keys first so that -LRB- is not taken apart)."""
    if s is None:
        return s
    for k in sorted(PAREN_NAMES, key=len, reverse=True):
        s = s.replace(k, PAREN_NAMES[k])
    return s


def brackets_encode(treebank, rng=None, empty_root=False, layout='line',
                    label_of=None, leaf_text=None):
    """PTB-style bracketing.  layout: 'line' (one tree per line, no extra
    space), 'pretty' (indented, multi-line), 'random' (random whitespace
    wherever the format allows it).  label_of(node) -> label text."""
    label_of = label_of or (lambda n: n.label)
    leaf_text = leaf_text or (lambda t: t.word)

    def ws(kind):
        if layout == 'line' or rng is None:
            return ' ' if kind == 'req' else ''
        if layout == 'pretty':
            return {'req': ' ', 'opt': '', 'nl': '\n  '}[kind]
        pool = [' ', '  ', '\n', '\t', ' \n ', '\r\n']
        if kind == 'req':
            return rng.choice(pool)
        return rng.choice(['', '', ''] + pool)

    def enc(n, is_root):
        if not n.children:
            if n.attrs.get('emptypos'):
                # "(word)": a token without POS tag (brackets_emptypos)
                return '(' + leaf_text(n) + ')'
            return '(' + ws('opt') + label_of(n) + ws('req') + leaf_text(n) \
                + ws('opt') + ')'
        lab = '' if (is_root and empty_root) else label_of(n)
        body = ''.join(ws('nl' if layout == 'pretty' else 'opt') + enc(k, False)
                       for k in n.kids())
        return '(' + (ws('opt') + lab if lab else '') + body + ws('opt') + ')'
    out = []
    for spec in treebank:
        out.append(enc(model.from_spec(spec['root']), True))
    sep = '\n' if layout != 'random' or rng is None else rng.choice(['\n', '\n\n', ' \n'])
    lead = '' if layout != 'random' or rng is None else rng.choice(['', '\n', '  '])
    return lead + sep.join(out) + '\n'


class BracketError(ValueError):
    pass


_ASCII_WS = ' \t\n\r\x0b\x0c'      # white space of the bracket formats


def bracket_tokens(text):
    """-> list of ('(' | ')' | 'WS' | 'TOK', value)"""
    out = []
    i = 0
    n = len(text)
    while i < n:
        c = text[i]
        if c in '()':
            out.append((c, c))
            i += 1
        elif c in _ASCII_WS:
            j = i
            while j < n and text[j] in _ASCII_WS:
                j += 1
            out.append(('WS', text[i:j]))
            i = j
        else:
            j = i
            while j < n and not text[j] in _ASCII_WS and text[j] not in '()':
                j += 1
            out.append(('TOK', text[i:j]))
            i = j
    return out


def brackets_decode(text, first_sid=1, root_default='VROOT', disco=False):
    """Strict decoder.  Grammar:  tree := '(' label? node+ ')' ;
    node := '(' label WS word ')' | '(' label node+ ')'.
    Tokens are numbered left to right (disco=False) or carry their 1-based
    position as the word (disco=True; the sentence follows the tree after a
    tab up to the end of the line)."""
    if disco:
        specs = []
        sid = first_sid
        for line in text.split('\n'):
            if line.strip() == '':
                continue
            if '\t' not in line:
                raise BracketError('no tab-separated sentence: %r' % line[:60])
            tree_txt, sent = line.split('\t', 1)
            words = sent.split(' ') if sent != '' else []
            words = [w for w in words if w != '']
            sub = brackets_decode(tree_txt, sid, root_default)
            if len(sub) != 1:
                raise BracketError('%d trees on one line' % len(sub))
            toks = [n for n in _walk(sub[0]['root']) if 'c' not in n]
            idx = sorted(int(t['w']) for t in toks)
            if idx != list(range(1, len(words) + 1)):
                raise BracketError('indices %r do not cover 1..%d'
                                   % (idx[:10], len(words)))
            for t in toks:
                t['n'] = int(t['w'])
                t['w'] = words[t['n'] - 1]
            specs.append(sub[0])
            sid += 1
        return specs
    toks = [t for t in bracket_tokens(text)]
    pos = [0]

    def peek(skip_ws=True):
        while skip_ws and pos[0] < len(toks) and toks[pos[0]][0] == 'WS':
            pos[0] += 1
        return toks[pos[0]] if pos[0] < len(toks) else None

    def take():
        t = toks[pos[0]]
        pos[0] += 1
        return t

    counter = [0]

    def node(top):
        t = peek()
        if t is None or t[0] != '(':
            raise BracketError('expected (')
        take()
        t = peek()
        label = None
        if t is not None and t[0] == 'TOK':
            label = take()[1]
        elif not top:
            raise BracketError('missing label')
        t = peek(skip_ws=False)
        if t is not None and t[0] == 'WS' and label is not None:
            take()
            t2 = peek(skip_ws=False)
            if t2 is not None and t2[0] == 'TOK':
                word = take()[1]
                t3 = peek()
                if t3 is None or t3[0] != ')':
                    raise BracketError('expected ) after word')
                take()
                counter[0] += 1
                return {'n': counter[0], 'w': word, 'p': label, 'e': '--',
                        'm': '--', 'lm': None}
        kids = []
        while True:
            t = peek()
            if t is None:
                raise BracketError('unterminated group')
            if t[0] == ')':
                take()
                break
            if t[0] == 'TOK':
                raise BracketError('stray token %r' % t[1])
            kids.append(node(False))
        if not kids:
            raise BracketError('constituent without children')
        return {'l': label if label is not None else root_default, 'e': '--',
                'c': kids}
    specs = []
    sid = first_sid
    while peek() is not None:
        if peek()[0] != '(':
            raise BracketError('material outside a tree: %r' % (peek()[1],))
        counter[0] = 0
        root = node(True)
        if 'c' not in root:
            raise BracketError('bare preterminal at top level')
        specs.append({'sid': sid, 'root': root})
        sid += 1
    return specs


def _walk(node):
    yield node
    for c in node.get('c', []):
        for x in _walk(c):
            yield x


def discobrackets_encode(treebank, label_of=None, rng=None):
    """with rng: the children of every node are written in random order
    (the indices, not the bracket order, carry the token positions)"""
    label_of = label_of or (lambda n: n.label)

    def enc(n):
        if not n.children:
            return '(%s %d)' % (label_of(n), n.num)
        kids = n.kids()
        if rng is not None:
            rng.shuffle(kids)
        return '(' + label_of(n) + ''.join(enc(k) for k in kids) + ')'
    out = []
    for spec in treebank:
        m = model.from_spec(spec['root'])
        out.append(enc(m) + '\t' + ' '.join(t.word for t in m.toks()))
    return '\n'.join(out) + '\n'


# ============================================================ TIGER-XML =======

def _xml_escape(s, rng=None):
    s = s.replace('&', '&amp;').replace('<', '&lt;').replace('>', '&gt;')
    return s


def _attr(s, rng=None):
    s = _xml_escape(s)
    if rng is not None and rng.random() < 0.3 and "'" not in s:
        return "'" + s.replace('"', '&quot;') + "'" if False else \
            "'" + s + "'"
    return '"' + s.replace('"', '&quot;') + '"'


def tigerxml_encode(treebank, rng=None, sid_format='s%d', encoding='utf-8',
                    with_vroot=True, secedges=False, omit_optional=False,
                    head=True, headless=()):
    """TIGER-XML.  with rng: attribute order, <nt> order and edge order are
    shuffled, ids get a per-corpus prefix.  The root constituent is written
    as a <nt> like any other when with_vroot (label from the spec), otherwise
    the root is left out and its single child becomes the top node."""
    out = []
    if encoding:
        out.append('<?xml version="1.0" encoding="%s" standalone="yes"?>'
                   % encoding)
    out.append('<corpus id="vt">')
    if head:
        out.append('<head><meta><name>vt</name></meta></head>')
    out.append('<body>')
    for spec in treebank:
        sid = sid_format % spec['sid']
        root = model.from_spec(spec['root'])
        pre = 's%d_' % spec['sid']
        ids = {}
        toks_ = root.toks()
        if rng is not None and rng.random() < 0.3:
            # ids are names, not positions: the order of the <t> elements is
            # the order of the sentence
            nums_ = rng.sample(range(1, 400), len(toks_)) \
                if len(toks_) < 300 else list(range(len(toks_), 0, -1))
            for t, k_ in zip(toks_, nums_):
                ids[id(t)] = '%sw%d' % (pre, k_)
        else:
            for t in toks_:
                ids[id(t)] = '%s%d' % (pre, t.num)
        cons = [n for n in root.nodes() if n.children]
        drop_root = not with_vroot or bool(spec.get('no_vroot'))
        if spec['sid'] in headless:
            # an ill-formed sentence: the root node is left out although
            # it has several children (several nodes without a parent)
            drop_root = True
            cons = [n for n in cons if n is not root]
        elif drop_root:
            # the single child of the root becomes the top node; when it is
            # a token the sentence has no <nt> at all (one-token sentences
            # of third-party TIGER-XML files)
            if len(root.children) != 1:
                raise ValueError('cannot drop the root of this tree')
            cons = [n for n in cons if n is not root]
        numbered = sorted(cons, key=lambda n: (n.height(), n.first()))
        for i, n in enumerate(numbered):
            ids[id(n)] = '%s%d' % (pre, 500 + i)
        top = root if not drop_root else root.children[0]
        out.append('<s id=%s>' % _attr(sid))
        out.append('<graph root=%s>' % _attr(ids[id(top)]))
        out.append('  <terminals>')
        for t in root.toks():
            attrs = [('id', ids[id(t)]), ('word', t.word), ('pos', t.label)]
            if not (omit_optional and rng and rng.random() < 0.5):
                attrs.append(('lemma', t.lemma if t.lemma is not None else '--'))
            if not (omit_optional and rng and rng.random() < 0.5):
                attrs.append(('morph', t.morph if t.morph is not None else '--'))
            if rng is not None:
                rng.shuffle(attrs)
            body = ' '.join('%s=%s' % (k, _attr(v, rng)) for k, v in attrs)
            if secedges and rng and cons and rng.random() < 0.2:
                out.append('    <t %s><secedge label="SB" idref=%s /></t>'
                           % (body, _attr(ids[id(rng.choice(numbered))])))
            else:
                out.append('    <t %s />' % body)
        out.append('  </terminals>')
        out.append('  <nonterminals>')
        order = list(numbered)
        if rng is not None:
            rng.shuffle(order)
        for n in order:
            attrs = [('id', ids[id(n)]), ('cat', n.label)]
            if rng is not None:
                rng.shuffle(attrs)
            out.append('    <nt %s>' % ' '.join('%s=%s' % (k, _attr(v))
                                                for k, v in attrs))
            kids = n.kids()
            if rng is not None:
                rng.shuffle(kids)
            for k in kids:
                ea = [('label', k.edge if k.edge is not None else '--'),
                      ('idref', ids[id(k)])]
                if rng is not None:
                    rng.shuffle(ea)
                out.append('      <edge %s />'
                           % ' '.join('%s=%s' % (a, _attr(v)) for a, v in ea))
            if secedges and rng and rng.random() < 0.2:
                out.append('      <secedge label="OA" idref=%s />'
                           % _attr(ids[id(rng.choice(numbered))]))
            out.append('    </nt>')
        out.append('  </nonterminals>')
        out.append('</graph>')
        out.append('</s>')
    out.append('</body>')
    out.append('</corpus>')
    return '\n'.join(out) + '\n'


def tigerxml_decode(data, root_label='VROOT'):
    """data: bytes or str.  Returns specs; the top node is the graph's only
    parentless node; when its label is not root_label a virtual root is put
    on top (what the format's users expect from TIGER files)."""
    root = ET.fromstring(data)
    body = root.find('body')
    if body is None:
        raise ValueError('no <body>')
    specs = []
    for s in body.findall('s'):
        sid_txt = s.get('id')
        nums = re.findall(r'\d+', sid_txt or '')
        if not nums:
            raise ValueError('sentence id without number: %r' % sid_txt)
        graph = s.find('graph')
        nodes = {}
        n = 0
        for t in graph.find('terminals').findall('t'):
            n += 1
            if t.get('id') in nodes:
                raise ValueError('duplicate id %r' % t.get('id'))
            nodes[t.get('id')] = {'n': n, 'w': t.get('word'), 'p': t.get('pos'),
                                  'e': '--', 'm': t.get('morph'),
                                  'lm': t.get('lemma')}
        nts = graph.find('nonterminals').findall('nt')
        for nt in nts:
            if nt.get('id') in nodes:
                raise ValueError('duplicate id %r' % nt.get('id'))
            nodes[nt.get('id')] = {'l': nt.get('cat'), 'e': '--', 'c': []}
        has_parent = set()
        for nt in nts:
            me = nodes[nt.get('id')]
            for e in nt.findall('edge'):
                ref = e.get('idref')
                if ref not in nodes:
                    raise ValueError('idref %r does not resolve' % ref)
                if ref in has_parent:
                    raise ValueError('node %r has two parents' % ref)
                has_parent.add(ref)
                nodes[ref]['e'] = e.get('label')
                me['c'].append(nodes[ref])
        tops = [k for k in nodes if k not in has_parent]
        if len(tops) != 1:
            raise ValueError('%d parentless nodes' % len(tops))
        top = nodes[tops[0]]
        for k, v in nodes.items():
            if 'c' in v and not v['c']:
                raise ValueError('nonterminal %r without children' % k)
        if 'c' not in top or top['l'] != root_label:
            top = {'l': root_label, 'e': '--', 'c': [top]}
        if len(list(_walk(top))) < len(nodes):
            raise ValueError('unreachable nodes (cycle)')
        specs.append({'sid': int(nums[-1]), 'root': top})
    return specs


# ============================================================ terminals =======

def terminals_decode(text, one=False, pos=False):
    """-> list of token lists [(word, pos|None)]"""
    sents = []
    if one:
        cur = []
        for ln in text.split('\n')[:-1] if text.endswith('\n') else text.split('\n'):
            if ln == '':
                sents.append(cur)
                cur = []
            else:
                if pos:
                    w, p = ln.split('\t')
                    cur.append((w, p))
                else:
                    cur.append((ln, None))
        if cur:
            raise ValueError('unterminated sentence in one-per-line output')
        return sents
    lines = text.split('\n')
    if lines and lines[-1] == '':
        lines = lines[:-1]
    for ln in lines:
        toks = [x for x in ln.split(' ') if x != '']
        if pos:
            sents.append([tuple(x.rsplit('/', 1)) for x in toks])
        else:
            sents.append([(x, None) for x in toks])
    return sents


# ============================================================ grammar files ===

def pmcfg_decode(text):
    """-> Counter{(func, lin): count} from the PMCFG text format
    (fun/lin/count triples + shared sN sequences)."""
    from collections import Counter
    funs = {}
    lins = {}
    counts = {}
    seqs = {}
    for raw in text.split('\n'):
        f = raw.split()
        if not f:
            continue
        if re.match(r'^fun\d+$', f[0]):
            if f[1] == ':':
                if f[3] != '<-':
                    raise ValueError('bad rule line %r' % raw)
                if f[0] in funs:
                    raise ValueError('%s defined twice' % f[0])
                funs[f[0]] = (f[2],) + tuple(f[4:])
            elif f[1] == '=':
                lins[f[0]] = f[2:]
            elif len(f) == 2 and re.match(r'^\d+$', f[1]):
                counts[f[0]] = int(f[1])
            else:
                raise ValueError('bad line %r' % raw)
        elif re.match(r'^s\d+$', f[0]):
            if f[1] != '->':
                raise ValueError('bad sequence line %r' % raw)
            if f[0] in seqs:
                raise ValueError('%s defined twice' % f[0])
            seqs[f[0]] = tuple(tuple(int(x) for x in p.split(':'))
                               for p in f[2:])
        else:
            raise ValueError('bad line %r' % raw)
    out = Counter()
    if set(funs) != set(lins) or set(funs) != set(counts):
        raise ValueError('incomplete function definitions')
    for k, func in funs.items():
        lin = tuple(seqs[s] for s in lins[k])
        out[(func, lin)] += counts[k]
    return out


def lex_decode(text):
    """LoPar-style lexicon: word TAB (tag count)* -> Counter{(word, tag)}"""
    from collections import Counter
    out = Counter()
    for raw in text.split('\n'):
        if raw == '':
            continue
        word, rest = raw.split('\t', 1)
        f = rest.split(' ')
        if len(f) % 2:
            raise ValueError('odd tag/count list %r' % raw)
        for i in range(0, len(f), 2):
            out[(word, f[i])] += int(f[i + 1])
    return out


def rcg_decode(text):
    """rparse RCG clauses  C:n A2([0][1],[2]) --> B1([0]) C2([1],[2])
    -> Counter{(func, lin): count}; labels lose their arity suffix."""
    from collections import Counter
    out = Counter()
    for raw in text.split('\n'):
        if raw.strip() == '':
            continue
        f = raw.split()
        m = re.match(r'^C:(\d+)$', f[0])
        if not m or f[2] != '-->':
            raise ValueError('bad clause %r' % raw)
        count = int(m.group(1))

        def pred(p):
            mm = re.match(r'^(.*)\(([^()]*)\)$', p)
            if not mm:
                raise ValueError('bad predicate %r' % p)
            args = mm.group(2).split(',')
            # the arity suffix is the number of arguments: a name that ends
            # in digits itself (a word under lex_in_grammar) stays decodable
            if not mm.group(1).endswith(str(len(args))):
                raise ValueError('%d arguments but no arity suffix %d in %r'
                                 % (len(args), len(args), p))
            return (mm.group(1)[:-len(str(len(args)))],
                    [re.findall(r'\[(\d+)\]', a) for a in args])
        lhs, largs = pred(f[1])
        rhs = [pred(p) for p in f[3:]]
        where = {}
        for i, (lab, args) in enumerate(rhs):
            for j, a in enumerate(args):
                if len(a) != 1:
                    raise ValueError('rhs argument with %d variables' % len(a))
                if a[0] in where:
                    raise ValueError('variable %s twice on the rhs' % a[0])
                where[a[0]] = (i, j)
        lin = tuple(tuple(where[v] for v in arg) for arg in largs)
        func = (lhs,) + tuple(lab for lab, _ in rhs)
        out[(func, lin)] += count
    return out


def lopar_gram_decode(text):
    from collections import Counter
    out = Counter()
    for raw in text.split('\n'):
        if raw == '':
            continue
        f = raw.split(' ')
        out[tuple(f[1:])] += int(f[0])
    return out


def pairs_decode(text):
    """lines 'symbol count' -> Counter"""
    from collections import Counter
    out = Counter()
    for raw in text.split('\n'):
        if raw == '':
            continue
        sym, c = raw.rsplit(' ', 1)
        out[sym] += int(c)
    return out

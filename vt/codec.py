"""Independent encoders / decoders of the file formats, written from the format
definitions (Brants 1997 for export, PTB bracketing, the discobracket
docstring, TIGER-XML), never from the repository's readers and writers.
All work on specs (see model.py)."""
import re
import xml.etree.ElementTree as ET

from . import model

# ============================================================ export ==========


def _export_number(root, rng=None, contiguous=True):
    """Assign numbers >= 500 to constituents below the root.  Default: by
    height, left to right (canonical); with rng: any injective assignment in
    500..999 (parents need not be numbered above children)."""
    cons = [n for n in root.nodes() if n.children and n is not root]
    if rng is None:
        cons.sort(key=lambda n: (n.height(), n.first()))
        return {id(n): 500 + i for i, n in enumerate(cons)}
    if contiguous:
        nums = list(range(500, 500 + len(cons)))
    else:
        nums = sorted(rng.sample(range(500, 1000), len(cons)))
    rng.shuffle(nums)
    return {id(n): nums[i] for i, n in enumerate(cons)}


def export_encode(treebank, v4=False, rng=None, header=False, comments=False,
                  secedges=False, shuffle_lines=False, tabs=True,
                  bos_trailer=False, noncontiguous=False, crlf=False,
                  blank_lines=False):
    out = []
    if header:
        out.append('%% created by vt.codec')
        out.append('#FORMAT %d' % (4 if v4 else 3))
        out.append('#BOT ORIGIN')
        out.append('0\tvt\tnothing')
        out.append('#EOT ORIGIN')
        out.append('#BOT WORDTAG')
        out.append('-1\tUNKNOWN\tN')
        out.append('0\t--\tN')
        out.append('#EOT WORDTAG')
    for spec in treebank:
        root = model.from_spec(spec['root'])
        nrng = rng if (rng is not None and (noncontiguous or shuffle_lines)) \
            else None
        numbering = _export_number(root, nrng, contiguous=not noncontiguous)
        bos = '#BOS %d' % spec['sid']
        if bos_trailer:
            bos += ' 2 1019471234 1 %% a comment'
        out.append(bos)
        if blank_lines and rng and rng.random() < 0.5:
            out.append('')

        def line(n):
            parent = 0 if n.parent is root else numbering[id(n.parent)]
            if n.children:
                fields = ['#%d' % numbering[id(n)]]
                if v4:
                    fields.append('--')
                fields += [n.label, n.morph or '--', n.edge or '--',
                           str(parent)]
            else:
                fields = [n.word]
                if v4:
                    fields.append(n.lemma if n.lemma is not None else '--')
                fields += [n.label, n.morph if n.morph is not None else '--',
                           n.edge if n.edge is not None else '--',
                           str(parent)]
            if secedges and rng and numbering and rng.random() < 0.3:
                fields += [rng.choice(['SB', 'OA', 'MO']),
                           str(rng.choice(sorted(numbering.values())))]
            if comments and rng and rng.random() < 0.2:
                fields += ['%%', 'note']
            if tabs:
                sepf = '\t'
                if rng and rng.random() < 0.3:
                    sepf = rng.choice(['\t\t', '\t\t\t', '   ', ' \t'])
                return sepf.join(fields)
            return ' '.join(fields)

        toks = root.toks()
        for t in toks:
            out.append(line(t))
        cons = [n for n in root.nodes() if n.children and n is not root]
        cons.sort(key=lambda n: numbering[id(n)])
        if shuffle_lines and rng:
            rng.shuffle(cons)
        for n in cons:
            out.append(line(n))
        out.append('#EOS %d' % spec['sid'])
        if blank_lines and rng and rng.random() < 0.3:
            out.append('')
    nl = '\r\n' if crlf else '\n'
    return nl.join(out) + nl


def export_decode(text, root_label='VROOT'):
    """Decode export v3/v4 text into a list of specs.  Strict: every parent
    reference must resolve, token lines precede nothing in particular, node
    numbers unique.  Raises ValueError on anything malformed.  Also returns
    per-sentence raw line info through the attribute-free tuple list
    [(spec, info)] when detail=True is not needed -- keep simple: list of
    specs, and `export_decode.last_info` for format obligations."""
    sentences = []
    info = []
    cur = None
    fmt4 = None
    for raw in text.split('\n'):
        ln = raw.rstrip('\r')
        if cur is None:
            if ln.startswith('#FORMAT'):
                fmt4 = ln.split()[1] == '4'
            if ln.startswith('#BOS'):
                cur = {'sid': int(ln.split()[1]), 'lines': []}
            continue
        if ln.startswith('#EOS'):
            if int(ln.split()[1]) != cur['sid']:
                raise ValueError('#EOS %s does not match #BOS %d'
                                 % (ln.split()[1], cur['sid']))
            sentences.append(cur)
            cur = None
            continue
        if ln.strip() == '':
            continue
        cur['lines'].append(ln)
    if cur is not None:
        raise ValueError('unterminated sentence %d' % cur['sid'])
    out = []
    for s in sentences:
        toks = []
        nodes = {}
        order = []
        tabs_ok = True
        for ln in s['lines']:
            if '%%' in ln:
                ln = ln[:ln.index('%%')]
            if '\t' not in ln:
                tabs_ok = False
            f = ln.split()
            if len(f) < 5:
                raise ValueError('too few fields: %r' % ln)
            is4 = fmt4 if fmt4 is not None else not f[4].isdigit() \
                if len(f) > 5 else False
            if is4:
                word, lemma, pos, morph, edge, parent = f[:6]
            else:
                word, pos, morph, edge, parent = f[:5]
                lemma = None
            parent = int(parent)
            if re.match(r'^#\d{3}$', word):
                num = int(word[1:])
                if num in nodes:
                    raise ValueError('node %d defined twice' % num)
                nodes[num] = {'l': pos, 'e': edge, 'c': [], '_p': parent,
                              '_m': morph}
                order.append(('N', num))
            else:
                t = {'n': len(toks) + 1, 'w': word, 'p': pos, 'e': edge,
                     'm': morph, 'lm': lemma, '_p': parent}
                toks.append(t)
                order.append(('T', t['n']))
        root = {'l': root_label, 'e': '--', 'c': []}
        for item in toks + [nodes[k] for k in sorted(nodes)]:
            p = item.pop('_p')
            if p == 0:
                root['c'].append(item)
            elif p in nodes:
                nodes[p]['c'].append(item)
            else:
                raise ValueError('parent %d does not exist' % p)
        for k, n in nodes.items():
            n.pop('_m', None)
            if not n['c']:
                raise ValueError('constituent %d without children' % k)
        # acyclic / all reachable
        reach = list(model.from_spec(root).nodes()) if root['c'] else []
        if len(reach) != 1 + len(toks) + len(nodes):
            raise ValueError('not all nodes reachable from the root (cycle?)')
        out.append({'sid': s['sid'], 'root': root})
        info.append({'order': order, 'numbers': sorted(nodes),
                     'tabs_ok': tabs_ok, 'lines': s['lines']})
    export_decode.last_info = info
    return out


export_decode.last_info = []

"""C20 -- label parsing and formatting are mutually inverse (DESIGN 5/C20).

Contracts on the real trees.parse_label / format_label / get_label; complete
sweep of all strings over the alphabet  A b 1 - = # ' *  up to length L plus
random structured labels, all separators, all decoration-option subsets."""
import itertools

from . import contracts

PROPERTY = 'C20'
LEVEL = 'exploration'
ALPHABET = "Ab10-=#'*"
RULE = ("complete sweep of all strings over the alphabet {A b 1 0 - = # ' *} up "
        "to length 5 (quick) / 7 (thorough), random structured labels "
        "(category, function, gap index, co-index, head mark; literals EMPTY "
        "and --), gf separators - # + /; get_label over every subset of the "
        "six decoration options; non-trivial = label of length >= 2 "
        "containing at least one of - = # ' * or a decoration request; "
        "distinct = distinct (string, separator) / (node, option set)")
ASSUMPTIONS = ['the expected decomposition is never computed by a second '
               'parser: the oracle checks inversion (format(parse(s)) == s), '
               'per-component removal and structural facts about the parts; '
               'for generated structured labels the parts are known by '
               'construction',
               'boyd_split_marking and boyd_split_numbering are independent, '
               'as the writer option table says ("Mark split nodes with *" / '
               '"Number split nodes"): numbering alone gives the number '
               'without an asterisk',
               'a category consisting of the single character * may or may '
               'not count as "wrapped in asterisks"']
WATCHDOG = {'quick': 600, 'thorough': 3600}
MIN = {'quick': {'distinct': 200000,
                 'hooks': {'trees.parse_label': 30000,
                           'trees.format_label': 30000,
                           'trees.get_label': 2000},
                 'strata': {'get_label: head that is not a head block': 100}},
       'thorough': {'distinct': 2000000,
                    'hooks': {'trees.parse_label': 2000000}}}


class Cur(object):
    ctx = None


def _fail(mech, case, detail):
    Cur.ctx.fail('C20:' + mech, case, detail)


def _glue(cat, sep, gf, gap, co, head, always_label=False, always_gf=False):
    """The documented layout LABEL (SEP GF)? (= GAP)? (- CO)? HEAD?"""
    out = cat if (cat != 'EMPTY' or always_label) else ''
    if gf != '--' or always_gf:
        out += sep + gf
    if gap:
        out += '=' + gap
    if co:
        out += '-' + co
    if head:
        out += "'"
    return out


# ---- contract on every parse_label evaluation -------------------------------

def post_parse(old, result, exc, args, kw):
    s = args[0]
    case = {'kind': 'parse', 's': s, 'sep': kw.get('gf_separator')}
    if exc is not None:
        _fail('parse-raises', case, 'parse_label(%r) raised %r' % (s, exc))
        return
    p = result
    if p.coindex and not p.coindex.isdigit():
        _fail('parse-coindex-not-digits', case, 'coindex %r' % (p.coindex,))
    if p.gapindex and not p.gapindex.isdigit():
        _fail('parse-gapindex-not-digits', case, 'gapindex %r' % (p.gapindex,))
    if p.headmarker not in ('', "'"):
        _fail('parse-headmarker', case, 'headmarker %r' % (p.headmarker,))
    if len(p.label) == 0 or len(p.gf) == 0:
        _fail('parse-empty-part', case, 'label %r gf %r' % (p.label, p.gf))
    wrapped = p.label.startswith('*') and p.label.endswith('*')
    if p.label == '*':
        pass
    elif bool(p.is_trace) != wrapped:
        _fail('is_trace', case, 'category %r: is_trace=%r' % (p.label,
                                                               p.is_trace))
    want = kw.get('gf_separator', '-')
    if p.gf_separator != want:
        _fail('gf_separator-not-honoured', case,
              'parse_label(%r, gf_separator=%r) reports separator %r'
              % (s, want, p.gf_separator))


def install(R):
    contracts.attach(R.trees, 'parse_label', None, post_parse)
    contracts.attach(R.trees, 'format_label', None, None)
    contracts.attach(R.trees, 'get_label', None, None)


# ---- drivers --------------------------------------------------------------------

def check_string(ctx, s, sep=None):
    T = ctx.R.trees
    kw = {} if sep is None else {'gf_separator': sep}
    case = {'kind': 'string', 's': s, 'sep': sep}
    try:
        p = T.parse_label(s, **kw)
    except Exception:
        return
    esep = sep or '-'
    try:
        r0 = T.format_label(p)
    except Exception as exc:
        _fail('format-raises', case, 'format_label raised %r' % (exc,))
        return
    if r0 != s:
        ok = False
        if p.label == 'EMPTY' or p.gf == '--':
            for flags in ({'always_label': True}, {'always_gf': True},
                          {'always_label': True, 'always_gf': True}):
                if T.format_label(p, **flags) == s:
                    ok = True
        if not ok:
            _fail('roundtrip', case, 'format(parse(%r)) = %r  (parts: %r %r '
                  '%r %r %r)' % (s, r0, p.label, p.gf, p.gapindex, p.coindex,
                                 p.headmarker))
            return
    # the parts, glued in the documented layout, are the string
    if _glue(p.label, esep, p.gf, p.gapindex, p.coindex, p.headmarker) != r0:
        _fail('format-layout', case, 'format gives %r, parts %r'
              % (r0, (p.label, p.gf, p.gapindex, p.coindex, p.headmarker)))
    # ... and with the flags that ask for the default literals
    for flags in ({'always_label': True}, {'always_gf': True},
                  {'always_label': True, 'always_gf': True}):
        try:
            rf = T.format_label(p, **flags)
        except Exception as exc:
            _fail('format-raises', case, 'format_label(%r) raised %r'
                  % (flags, exc))
            break
        if rf != _glue(p.label, esep, p.gf, p.gapindex, p.coindex,
                       p.headmarker, **flags):
            _fail('format-layout-flags', case, 'format_label(parse(%r), %s) '
                  'gives %r, parts %r' % (s, sorted(flags), rf, (
                      p.label, p.gf, p.gapindex, p.coindex, p.headmarker)))
            break
    # the function is what follows the first separator
    if p.gf != '--' and not s.startswith(p.label + esep + p.gf):
        _fail('gf-not-after-first-separator', case,
              'parse_label(%r, sep %r): category %r function %r'
              % (s, esep, p.label, p.gf))
    if p.gf != '--' and esep in p.label:
        _fail('gf-not-after-first-separator', case,
              'category %r still contains the separator %r' % (p.label, esep))
    # emptying one component removes exactly that component
    parts = dict(cat=p.label, gf=p.gf, gap=p.gapindex, co=p.coindex,
                 head=p.headmarker)
    for comp, attr, empty in (('co', 'coindex', ''), ('gap', 'gapindex', ''),
                              ('head', 'headmarker', ''), ('gf', 'gf', '--'),
                              ('cat', 'label', '')):
        if not parts[comp] or (comp == 'gf' and parts[comp] == '--'):
            continue
        q = T.parse_label(s, **kw)
        setattr(q, attr, empty)
        exp = dict(parts)
        exp[comp] = empty
        want = _glue(exp['cat'], esep, exp['gf'], exp['gap'], exp['co'],
                     exp['head'])
        try:
            got = T.format_label(q)
        except Exception as exc:
            _fail('format-raises', case, 'after emptying %s: %r' % (comp, exc))
            continue
        if got != want:
            _fail('remove-' + comp, case, 'emptying %s of %r gives %r, '
                  'expected %r' % (comp, s, got, want))
        elif comp == 'cat' and parts['gf'] != '--':
            # an emptied category stays empty whatever the flags say
            try:
                got2 = T.format_label(q, always_label=True)
            except Exception as exc:
                _fail('format-raises', case, 'always_label after emptying '
                      'the category: %r' % (exc,))
                continue
            if got2 != want:
                _fail('remove-cat', case, 'emptying the category of %r and '
                      'formatting with always_label gives %r, expected %r'
                      % (s, got2, want))
    nontriv = len(s) >= 2 and any(c in s for c in "-=#'*")
    ctx.case('%s|%s' % (s, sep), nontrivial=nontriv)


CATS = ['NP', 'S', 'VP', 'PP', 'WHNP', 'ADVP', 'EMPTY', '*T*', '*', '*ICH*',
        '-NONE-', 'X', 'NP2', 'A1b', '$.', '$(', 'PP-LOC', 'S=x']
GFS = ['--', 'SBJ', 'HD', 'OA', 'LOC-TMP', 'TPC', 'A1', 'mo', 'SB', '9']


def check_structured(ctx, rng):
    """Labels generated from known parts: the parse must return those parts
    whenever the decomposition is unambiguous by the documented grammar."""
    T = ctx.R.trees
    sep = rng.choice(['-', '-', '#', '+', '/'])
    cat = rng.choice(['NP', 'S', 'VP', 'WHNP', 'ADVP', 'X', 'A1b', '*T*',
                      '*ICH*', 'EMPTY'])
    gf = rng.choice(['--', 'SBJ', 'HD', 'OA', 'TPC', 'mo', 'SB', 'PRD', 'A',
                     'x'])
    gap = rng.choice(['', '', '1', '23', '01'])
    co = rng.choice(['', '', '2', '17', '01', '007', '0'])
    head = rng.choice(['', '', "'"])
    s = _glue(cat, sep, gf, gap, co, head, always_label=True)
    kw = {} if sep == '-' and rng.random() < 0.5 else {'gf_separator': sep}
    case = {'kind': 'structured', 's': s, 'sep': sep,
            'parts': [cat, gf, gap, co, head]}
    if rng.random() < 0.5:
        # an earlier call on the same string with another separator, whose
        # result the caller then edits: nothing of it may show below
        other = rng.choice([x for x in ['-', '#', '+', '/', '='] if x != sep])
        case['earlier_separator'] = other
        try:
            q = T.parse_label(s, gf_separator=other)
            q.coindex = q.gapindex = ''
            q.gf = 'XX'
        except Exception:
            pass
        ctx.stratum('structured: same string parsed before with another '
                    'separator')
    try:
        p = T.parse_label(s, **kw)
    except Exception:
        ctx.case('st|%s|%s' % (s, sep))
        return
    got = (p.label, p.gf, p.gapindex, p.coindex, p.headmarker)
    if got != (cat, gf, gap, co, head):
        _fail('structured-parts' if sep == '-' else
              'structured-parts-custom-separator', case,
              'parse_label(%r, %r) = %r, label was built from %r'
              % (s, kw, got, (cat, gf, gap, co, head)))
    ctx.case('st|%s|%s' % (s, sep))
    ctx.stratum('structured sep=%s' % sep)
    check_string(ctx, s, None if not kw else sep)


OPTS = ['gf', 'gf_separator', 'gf_terminals', 'mark_heads_marking',
        'boyd_split_marking', 'boyd_split_numbering']


def check_kept(ctx, rng):
    """Several parse results alive at the same time (a caller compares the
    labels of two nodes, collects the labels of a tree): each stays what it
    was when parse_label returned it, whatever is parsed or edited later."""
    T = ctx.R.trees
    strings = []
    for _ in range(rng.randint(2, 5)):
        strings.append(_glue(
            rng.choice(['NP', 'S', 'VP', 'WHNP', 'X', '*T*', 'EMPTY']), '-',
            rng.choice(['--', 'SBJ', 'HD', 'OA', 'mo']),
            rng.choice(['', '', '1', '23']), rng.choice(['', '', '2', '17']),
            rng.choice(['', "'"]), always_label=True))
    case = {'kind': 'kept', 'strings': strings}
    ATTRS = ('label', 'gf', 'gapindex', 'coindex', 'headmarker')
    kept = []
    try:
        for s_ in strings:
            q = T.parse_label(s_)
            kept.append((q, tuple(getattr(q, a) for a in ATTRS),
                         T.format_label(q)))
        # an edit of the last result is the caller's business and shows in
        # that result only
        last = kept[-1][0]
        last.gf = '--'
        last.coindex = ''
    except Exception as exc:
        _fail('parse-raises', case, 'raised %r' % (exc,))
        return
    for k, (q, parts, text) in enumerate(kept[:-1]):
        now = tuple(getattr(q, a) for a in ATTRS)
        if now != parts or T.format_label(q) != text:
            _fail('parse-results-share-state', case, 'the result for %r was '
                  '%r / %r when it was returned and is %r / %r after %d more '
                  'calls' % (strings[k], parts, text, now, T.format_label(q),
                             len(kept) - 1 - k))
            return
    ctx.stratum('several parse results alive at once')


def check_get_label(ctx, rng, subset=None):
    T = ctx.R.trees
    is_cons = rng.random() < 0.6
    label = rng.choice(CATS + ["''", "N'", "X''", "'", 'A*', '*', 'A,B', 'P+D',
                               'R-SIMPX', 'A#B', '1N', 'VROOT', '@NX'])
    edge = rng.choice(['--', 'HD', 'SB', 'OA', 'NK', 'MO', 'A-B', "H'"])
    head = rng.choice([True, False])
    split = rng.choice([True, False])
    block = rng.randint(1, 4)
    node = T.Tree(T.make_node_data())
    node.data.update(label=label, edge=edge, head=head, split=split,
                     block_number=block)
    # what boyd_split leaves on the nodes: every node gets a head_block flag,
    # the blocks of a split head child are all heads and one of them is the
    # head block; the head mark follows `head` alone
    head_block = rng.choice([None, True, False])
    if head_block is not None:
        node.data['head_block'] = head_block
        if head and not head_block:
            ctx.stratum('get_label: head that is not a head block')
    if is_cons:
        kid = T.Tree(T.make_node_data())
        kid.data.update(label='NN', word='w', num=1, edge='--')
        kid.parent = node
        node.children.append(kid)
    else:
        node.data.update(word='w', num=1)
    if subset is None:
        subset = [o for o in OPTS if rng.random() < 0.5]
    params = {}
    sepv = '-'
    for o in subset:
        if o == 'gf_separator':
            # values as the command line delivers them: options_dict turns
            # digit strings into ints and a missing value into ''
            raw = rng.choice(['-', '#', '+', ':', 0, 10, '', '0', '::'])
            sepv = str(raw)
            params[o] = raw
        else:
            params[o] = True
    case = {'kind': 'get_label', 'label': label, 'edge': edge, 'head': head,
            'split': split, 'block': block, 'cons': is_cons, 'params': params,
            'head_block': head_block}
    exp = label
    if 'gf' in params and edge != '--' and (is_cons or 'gf_terminals' in params):
        exp += sepv + edge
    if 'mark_heads_marking' in params and head:
        exp += "'"
    exps = []
    if split:
        mark = '*' if 'boyd_split_marking' in params else ''
        if 'boyd_split_numbering' in params:
            exps.append(exp + mark + str(block))
        else:
            exps.append(exp + mark)
    else:
        exps.append(exp)
    try:
        got = T.get_label(node, **params)
    except Exception as exc:
        _fail('get_label-raises', case, 'raised %r' % (exc,))
        return
    if got not in exps:
        _fail('get_label-decoration', case, 'get_label = %r, expected %r'
              % (got, exps[0]))
    if node.data['label'] != label or node.data['edge'] != edge:
        _fail('get_label-mutates', case, 'node data changed')
    ctx.case('gl|%r' % sorted(case.items()), nontrivial=bool(params))
    ctx.stratum('get_label opts=%d' % len(params))


def shard(ctx):
    Cur.ctx = ctx
    install(ctx.R)
    L = ctx.pick(6, 7)
    i = 0
    total = 0
    for n in range(0, L + 1):
        for tup in itertools.product(ALPHABET, repeat=n):
            i += 1
            if not ctx.mine(i):
                continue
            s = ''.join(tup)
            check_string(ctx, s)
            if n <= 5:
                check_string(ctx, s, '#')
                # separators of more than one character
                check_string(ctx, s, '##')
                check_string(ctx, s, '-#')
            total += 1
    ctx.stratum('sweep strings', total)
    if ctx.shard == 0:
        ctx.sum('sweep_strings_total', sum(len(ALPHABET) ** n
                                           for n in range(L + 1)))
        ctx.sample({'sweep': 'all strings over %r up to length %d'
                    % (ALPHABET, L), 'e.g.': ["A-b=1-1'", "*-*", "b#A-1"]})
    for i in ctx.indices(ctx.pick(20000, 400000)):
        rng = ctx.rng('st', i)
        check_structured(ctx, rng)
    for i in ctx.indices(ctx.pick(4000, 60000)):
        check_kept(ctx, ctx.rng('kept', i))
    # every subset of the decoration options x node kinds
    k = 0
    for r in range(len(OPTS) + 1):
        for subset in itertools.combinations(OPTS, r):
            for rep in range(ctx.pick(12, 200)):
                k += 1
                if ctx.mine(k):
                    check_get_label(ctx, ctx.rng('gl', k), list(subset))
    for i in ctx.indices(ctx.pick(3000, 100000)):
        rng = ctx.rng('glr', i)
        check_get_label(ctx, rng)
        if i < 40:
            pass
    if ctx.shard == 0:
        ctx.sample({'structured': "NP#SBJ=1-2'", 'separator': '#'})


def replay(ctx, case):
    Cur.ctx = ctx
    install(ctx.R)
    if case['kind'] == 'kept':
        import random
        for seed in range(200):
            check_kept(ctx, random.Random(seed))
        return
    if case['kind'] in ('string', 'parse', 'structured'):
        check_string(ctx, case['s'], case.get('sep')
                     if case.get('sep') not in (None, '-') else None)
        if case['kind'] == 'structured':
            T = ctx.R.trees
            cat, gf, gap, co, head = case['parts']
            if case.get('earlier_separator'):
                try:
                    q = T.parse_label(case['s'],
                                      gf_separator=case['earlier_separator'])
                    q.coindex = q.gapindex = ''
                    q.gf = 'XX'
                except Exception:
                    pass
            p = T.parse_label(case['s'], gf_separator=case['sep'])
            got = (p.label, p.gf, p.gapindex, p.coindex, p.headmarker)
            if list(got) != list(case['parts']):
                _fail('structured-parts' if case['sep'] == '-' else
                      'structured-parts-custom-separator', case,
                      'parse gives %r' % (got,))
    else:
        # re-draw is not possible without the rng; rebuild from the record
        T = ctx.R.trees
        node = T.Tree(T.make_node_data())
        node.data.update(label=case['label'], edge=case['edge'],
                         head=case['head'], split=case['split'],
                         block_number=case['block'])
        if case.get('head_block') is not None:
            node.data['head_block'] = case['head_block']
        if case['cons']:
            kid = T.Tree(T.make_node_data())
            kid.data.update(label='NN', word='w', num=1, edge='--')
            kid.parent = node
            node.children.append(kid)
        else:
            node.data.update(word='w', num=1)
        try:
            got = T.get_label(node, **case['params'])
            print('get_label ->', repr(got))
        except Exception as exc:
            _fail('get_label-raises', case, 'raised %r' % (exc,))


def evidence_extra(tier, m):
    return {'exhaustive': False,
            'sweeps': 'all strings over the 9-letter alphabet up to length %d'
            % (6 if tier == 'quick' else 7)}

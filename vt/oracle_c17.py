"""C17 -- output splitting partitions the treebank in order into well-formed
parts (DESIGN 5/C17).  Contract on the real parse_split_specification
(integer reference of the documented arithmetic, complete sweep) and an
exactly-once / order / framing check over the part files the real command
line writes."""
import itertools
import os
import re

from . import codec, common, contracts, gen, model

PROPERTY = 'C17'
LEVEL = 'exploration'
RULE = ('parse_split_specification: complete sweep of all specifications of '
        '1..3 parts over a grid of N# / N% values and rest (plus malformed and '
        'negative parts) x treebank sizes 0..25, 100, 101, 1000 (quick) / 4 '
        'parts x sizes 0..60 (thorough); command line: random treebanks '
        '(1..14 trees) written by an independent export encoder, split into '
        'all five output formats, with and without filter_by_length; '
        'non-trivial = specification with >= 2 parts whose sizes are not all '
        'equal, or a rejected specification; distinct = distinct (spec, size) '
        '/ (treebank, spec, format, filter)')
ASSUMPTIONS = ['ref_split in this file: N% = floor(N*size/100) in exact '
               'integer arithmetic, N# exact, remainder to rest, else to the '
               'first largest part; rejected iff malformed, rest twice, a '
               'negative size, or the sum exceeds the number of trees',
               'part files are decoded by vt/codec.py']
WATCHDOG = {'quick': 900, 'thorough': 5400}
MIN = {'quick': {'distinct': 50000,
                 'hooks': {'treeoutput.parse_split_specification': 100000,
                           'cli.split': 120, 'own reader on part': 200},
                 'strata': {'rejected: malformed': 1000,
                            'rejected: sum exceeds size': 1000,
                            'rejected: negative': 100,
                            'remainder to first largest part': 1000,
                            'remainder to rest': 1000,
                            'cli split with a reader option that changes '
                            'the trees': 6,
                            'cli split after a transformation that returns '
                            'a new root': 15}},
       'thorough': {'distinct': 1000000, 'hooks': {'cli.split': 1000}}}


class Reject(Exception):
    pass


def ref_split(spec, size):
    parts = []
    rest = None
    for i, p in enumerate(spec.split('_')):
        if re.fullmatch(r'[0-9]+%', p):
            parts.append(int(p[:-1]) * size // 100)
        elif re.fullmatch(r'[0-9]+#', p):
            parts.append(int(p[:-1]))
        elif p == 'rest' and rest is None:
            parts.append(0)
            rest = i
        elif re.fullmatch(r'-[0-9]+[#%]', p):
            raise Reject('negative')
        else:
            raise Reject('malformed')
    total = sum(parts)
    if total > size:
        raise Reject('sum exceeds size')
    how = 'exact'
    if total < size:
        if rest is not None:
            parts[rest] = size - total
            how = 'remainder to rest'
        else:
            parts[parts.index(max(parts))] += size - total
            how = 'remainder to first largest part'
    return parts, how


class Cur(object):
    ctx = None


def post_parse(old, result, exc, args, kw):
    ctx = Cur.ctx
    spec, size = args[0], args[1]
    case = {'kind': 'spec', 'spec': spec, 'size': size}
    try:
        exp, how = ref_split(spec, size)
    except Reject as r:
        exp, how = None, 'rejected: %s' % r
    ctx.stratum(how)
    nontriv = exp is None or (len(exp) >= 2 and len(set(exp)) > 1)
    ctx.case('%s|%d' % (spec, size), nontrivial=nontriv)
    if exp is None:
        if exc is None:
            mech = 'accepts-' + how.split(': ')[1].replace(' ', '-')
            if any(p < 0 for p in result):
                mech = 'negative-part-size'
            ctx.fail('C17:' + mech, case, 'parse_split_specification(%r, %d) '
                     '= %r, specification must be rejected (%s)'
                     % (spec, size, result, how))
        return
    if exc is not None:
        ctx.fail('C17:rejects-valid-specification', case,
                 'parse_split_specification(%r, %d) raised %r, expected %r'
                 % (spec, size, exc, exp))
        return
    if list(result) != exp:
        mech = 'part-sizes'
        if sum(result) == size and '%' in spec and \
                any(abs(a - b) == 1 for a, b in zip(result, exp)):
            mech = 'percentage-rounding'
        ctx.fail('C17:' + mech, case, 'parse_split_specification(%r, %d) = '
                 '%r, documented arithmetic gives %r' % (spec, size,
                                                         list(result), exp))
        return
    if sum(result) != size or any(p < 0 for p in result):
        ctx.fail('C17:partition', case, 'sizes %r for %d trees'
                 % (list(result), size))


def install(R):
    contracts.attach(R.treeoutput, 'parse_split_specification', None,
                     post_parse)


GRID = ['0#', '1#', '2#', '5#', '10#', '25#', '100#', '0%', '1%', '7%', '10%',
        '29%', '33%', '50%', '57%', '58%', '99%', '100%', '150%', 'rest']
BAD = ['x', '', '5', '-5#', '-3%', '5.0%', 'REST', '#', '%', '1#2#', 'rest#']


def sweep_specs(maxparts, thorough):
    vals = GRID + (['3#', '17%', '66%', '34%'] if thorough else [])
    for k in range(1, maxparts + 1):
        for combo in itertools.product(vals, repeat=k):
            yield '_'.join(combo)
    for b in BAD:
        yield b
        for v in ('5#', '50%', 'rest'):
            yield v + '_' + b
            yield b + '_' + v
    yield 'rest_rest'
    yield 'rest_5#_rest'


def call(R, spec, size):
    try:
        with common.captured():
            R.treeoutput.parse_split_specification(spec, size)
    except Exception:
        pass


# ---- command line ---------------------------------------------------------------------

FORMATS = ['export', 'brackets', 'discobrackets', 'tigerxml', 'terminals']


def _xml_bytes(text):
    """re-encode decoded XML text the way its declaration says"""
    m = re.match(r"<\?xml[^>]*encoding=['\"]([^'\"]+)['\"]", text)
    return text.encode(m.group(1) if m else 'utf-8')


def decode_part(fmt, text):
    """-> list of comparable items (one per tree)"""
    if fmt == 'export':
        return [(s['sid'], model.canon(model.from_spec(s['root']), 'wpme'))
                for s in codec.export_decode(text)]
    if fmt == 'brackets':
        return [model.canon(model.from_spec(s['root']), 'wp')
                for s in codec.brackets_decode(text)]
    if fmt == 'discobrackets':
        return [model.canon(model.from_spec(s['root']), 'wp')
                for s in codec.brackets_decode(text, disco=True)]
    if fmt == 'tigerxml':
        return [(s['sid'], model.canon(model.from_spec(s['root']), 'wplme'))
                for s in codec.tigerxml_decode(_xml_bytes(text))]
    if fmt == 'terminals':
        return codec.terminals_decode(text)
    raise ValueError(fmt)


def cli_case(ctx, case):
    R = ctx.R
    bank, spec, fmt = case['bank'], case['spec'], case['fmt']
    senc = case.get('senc', 'utf-8')
    denc = case.get('denc', 'utf-8')
    src = common.write(ctx.path('.export'), codec.export_encode(bank), senc)
    dest = ctx.path('.out')
    extra = ['--src-enc', senc, '--dest-enc', denc]
    if case.get('sopts'):
        extra += ['--src-opts'] + case['sopts']
    more = case.get('newroot') or []
    if more and not case.get('filter'):
        extra += ['--trans'] + more
    if case.get('filter'):
        op, val = case['filter']
        extra += ['--trans', 'filter_by_length'] + more + [
            '--params', 'filteroperator:%s' % op, 'filtervalue:%d' % val]
        keep = [s for s in bank
                if not {'lt': len(gen.tokens_of(s['root'])) < val,
                        'gt': len(gen.tokens_of(s['root'])) > val,
                        'eq': len(gen.tokens_of(s['root'])) == val}[op]]
    else:
        keep = list(bank)
    try:
        exp, how = ref_split(spec, len(keep))
    except Reject as r:
        exp = None
    base = ['transform', src, dest, '--src-format', 'export',
            '--dest-format', fmt] + extra
    import zlib
    if zlib.crc32(repr((spec, fmt, len(bank))).encode()) % 3 == 0:
        # how often progress is reported is no business of the parts
        base += ['--counting', str((1, 2, 3)[len(keep) % 3])]
        ctx.stratum('cli with --counting')
    rc, out, err = common.cli(base + ['--split', spec])
    ctx.hook('cli.split')
    if exp is None:
        if rc == 0:
            ctx.fail('C17:cli-accepts-bad-specification', case,
                     'exit 0 for %r on %d trees' % (spec, len(keep)))
        else:
            ctx.stratum('cli rejected')
        ctx.case(['cli', spec, fmt, [s['root'] for s in bank]])
        return
    if rc != 0:
        ctx.fail('C17:cli-exit-status', case, 'exit %r: %s'
                 % (rc, common.tail(err)))
        return
    # unsplit reference run of the tool itself
    dest2 = ctx.path('.whole')
    rc2, out2, err2 = common.cli(['transform', src, dest2, '--src-format',
                                  'export', '--dest-format', fmt] + extra)
    if rc2 != 0:
        ctx.fail('C17:cli-unsplit-exit-status', case, common.tail(err2))
        return
    parts = []
    for i in range(len(exp)):
        p = '%s.%d' % (dest, i)
        if not os.path.exists(p):
            ctx.fail('C17:part-file-missing', case, 'no file for part %d' % i)
            return
        try:
            parts.append(common.read(p, denc))
        except UnicodeError as e:
            ctx.fail('C17:part-not-in-destination-encoding', case,
                     'part %d cannot be read as %s: %r' % (i, denc, e))
            return
    if os.path.exists('%s.%d' % (dest, len(exp))):
        ctx.fail('C17:extra-part-file', case, 'more files than parts')
        return
    decoded = []
    for i, text in enumerate(parts):
        try:
            items = decode_part(fmt, text)
        except Exception as e:
            if exp[i] == 0 and text == '':
                items = []
            else:
                ctx.fail('C17:part-not-a-complete-%s-file' % fmt, case,
                         'part %d (%d trees expected) does not decode: %r | '
                         'starts with %r' % (i, exp[i], e, text[:80]))
                return
        if len(items) != exp[i]:
            ctx.fail('C17:part-size', case, 'part %d holds %d trees, '
                     'specification %r on %d trees gives %r'
                     % (i, len(items), spec, len(keep), exp))
            return
        decoded.append(items)
    try:
        whole = decode_part(fmt, common.read(dest2, denc))
    except Exception as e:
        ctx.fail('C17:unsplit-output-does-not-decode', case, repr(e))
        return
    flat = [x for items in decoded for x in items]
    if flat != whole:
        ctx.fail('C17:parts-differ-from-unsplit-run', case,
                 'concatenated parts hold %d trees, unsplit run %d; first '
                 'difference at %s' % (len(flat), len(whole),
                                       next((i for i, (a, b) in
                                             enumerate(zip(flat, whole))
                                             if a != b), 'length')))
        return
    if fmt in ('export', 'tigerxml'):
        want_sids = [s['sid'] for s in keep]
        if 'continuous' in (case.get('sopts') or []):
            # the reader renumbers 1..n before anything is filtered
            want_sids = [i + 1 for i, s in enumerate(bank)
                         if any(s is t for t in keep)]
        if [x[0] for x in flat] != want_sids:
            ctx.fail('C17:wrong-trees', case, 'sentence ids %r, expected %r '
                     '(reader options %r)' % ([x[0] for x in flat], want_sids,
                                              case.get('sopts')))
            return
    # every part is accepted by the tool's own reader of that format
    if fmt != 'terminals':
        for i in range(len(exp)):
            p = '%s.%d' % (dest, i)
            try:
                with common.captured():
                    got = list(getattr(R.treeinput, fmt)(p, denc,
                                                          quiet=True))
                ctx.hook('own reader on part')
            except Exception as e:
                ctx.fail('C17:own-reader-rejects-part-%s' % fmt, case,
                         'part %d (%d trees): %r' % (i, exp[i], e))
                return
            if len(got) != exp[i]:
                ctx.fail('C17:own-reader-count-%s' % fmt, case,
                         'part %d: reader yields %d trees, %d expected'
                         % (i, len(got), exp[i]))
                return
    ctx.case(['cli', spec, fmt, case.get('filter'),
              [s['root'] for s in bank]],
             nontrivial=len(exp) >= 2)
    ctx.stratum('cli ' + fmt)
    if case.get('filter'):
        ctx.stratum('cli with filter_by_length')
    if senc != denc:
        ctx.stratum('cli source and destination encodings differ')
    if 0 in exp:
        ctx.stratum('cli with an empty part')
    if case.get('newroot'):
        ctx.stratum('cli split after a transformation that returns a new '
                    'root')
    if case.get('sopts') and bank and bank[0]['sid'] != 1:
        ctx.stratum('cli split with a reader option that changes the trees')


def make_cli_case(rng):
    fmt = rng.choice(FORMATS)
    k = rng.randint(1, 14)
    senc, denc = rng.choice([('utf-8', 'utf-8'), ('utf-8', 'utf-8'),
                             ('latin-1', 'utf-8'), ('utf-8', 'latin-1'),
                             ('latin-1', 'latin-1')])
    pools = gen.Pools(lemma=False, words=gen.WORDS_ASCII + (
        gen.WORDS_NONASCII if (senc, denc) != ('utf-8', 'utf-8')
        or rng.random() < 0.3 else []))
    bank = [gen.tree(rng, rng.randint(1, 7), pools,
                     moves=0 if fmt == 'brackets' else rng.choice([0, 1, 2]),
                     sid=i + 1) for i in range(k)]
    sid0 = rng.choice([0, 0, 4, 40])
    if sid0:
        for i, s in enumerate(bank):
            s['sid'] = sid0 + 2 * i
    nparts = rng.randint(1, 4)
    vals = []
    for _ in range(nparts):
        r = rng.random()
        if r < 0.35:
            vals.append('%d#' % rng.randint(0, max(1, k // 2)))
        elif r < 0.75:
            vals.append('%d%%' % rng.choice([0, 10, 20, 25, 29, 33, 50, 57, 80]))
        else:
            vals.append('rest')
    if vals.count('rest') > 1 and rng.random() < 0.8:
        vals = [v if v != 'rest' else '10%' for v in vals[:-1]] + ['rest']
    if rng.random() < 0.05:
        vals.append(rng.choice(['-1#', 'x', '200%']))
    case = {'kind': 'cli', 'bank': bank, 'spec': '_'.join(vals), 'fmt': fmt,
            'senc': senc, 'denc': denc}
    if rng.random() < 0.3:
        case['filter'] = [rng.choice(['lt', 'gt', 'eq']), rng.randint(1, 6)]
    if rng.random() < 0.4:
        case['sopts'] = ['continuous']
    if rng.random() < 0.3:
        # transformations that return a new root: the parts hold what the
        # transformations returned, as the unsplit output does
        case['newroot'] = rng.choice([['add_topnode'],
                                      ['collapse_unary_chains',
                                       'uncollapse_unary_chains'],
                                      ['add_topnode', 'collapse_unary_chains',
                                       'uncollapse_unary_chains']])
    return case


def shard(ctx):
    Cur.ctx = ctx
    install(ctx.R)
    thorough = not ctx.quick()
    sizes = list(range(0, 26)) + [100, 101, 1000] if not thorough \
        else list(range(0, 61)) + [100, 101, 1000, 12345]
    i = 0
    for spec in sweep_specs(4 if thorough else 3, thorough):
        i += 1
        if not ctx.mine(i):
            continue
        for size in sizes:
            call(ctx.R, spec, size)
    if ctx.shard == 0:
        ctx.sample({'sweep': 'all specs of <= %d parts over %r'
                    % (4 if thorough else 3, GRID), 'sizes': sizes[:5] + ['...']})
    for i in ctx.indices(ctx.pick(160, 1500)):
        rng = ctx.rng('cli', i)
        case = make_cli_case(rng)
        cli_case(ctx, case)
        if i < 2:
            ctx.sample({'cli': case['spec'], 'format': case['fmt'],
                        'trees': len(case['bank'])})


def replay(ctx, case):
    Cur.ctx = ctx
    install(ctx.R)
    if case['kind'] == 'spec':
        call(ctx.R, case['spec'], case['size'])
    else:
        cli_case(ctx, case)

"""Set-based model of a treebank tree, independent of trees/trees.py.

A *spec* is plain JSON data:

    tree  = {"sid": int, "root": node}
    node  = {"l": label, "e": edge, "c": [node, ...]}            constituent
          | {"n": num, "w": word, "p": pos, "e": edge,
             "m": morph, "lm": lemma}                            token
    optional on any node: "h": bool (head flag)

MN is the model node used by all reference semantics; it is built either
from a spec or from a *live* trees.Tree by walking raw attributes only
(.children, .parent, .data) -- never through trees.children/terminals/...
"""


class MN(object):
    __slots__ = ('label', 'edge', 'children', 'parent', 'num', 'word',
                 'lemma', 'morph', 'head', 'attrs', 'ref')

    def __init__(self, label=None, edge=None, num=None, word=None,
                 lemma=None, morph=None, head=None):
        self.label = label
        self.edge = edge
        self.children = []
        self.parent = None
        self.num = num
        self.word = word
        self.lemma = lemma
        self.morph = morph
        self.head = head
        self.attrs = {}
        self.ref = None

    # -- basic set-based notions -------------------------------------------
    @property
    def is_tok(self):
        return not self.children

    def add(self, child):
        child.parent = self
        self.children.append(child)
        return child

    def detach(self):
        self.parent.children.remove(self)
        self.parent = None

    def toks(self):
        """Token nodes of the yield in token order."""
        out = []
        stack = [self]
        while stack:
            n = stack.pop()
            if n.children:
                stack.extend(n.children)
            else:
                out.append(n)
        out.sort(key=lambda t: t.num)
        return out

    def nums(self):
        return [t.num for t in self.toks()]

    def first(self):
        return min(self.nums())

    def kids(self):
        """Children ordered by least token."""
        return sorted(self.children, key=lambda c: c.first())

    def nodes(self):
        """All nodes, preorder over ordered children."""
        out = [self]
        for c in self.kids():
            out.extend(c.nodes())
        return out

    def constituents(self):
        return [n for n in self.nodes() if n.children]

    def root(self):
        n = self
        while n.parent is not None:
            n = n.parent
        return n

    def depth(self):
        d = 0
        n = self
        while n.parent is not None:
            n = n.parent
            d += 1
        return d

    def ancestors(self):
        """self, parent, ..., root"""
        out = [self]
        n = self
        while n.parent is not None:
            n = n.parent
            out.append(n)
        return out

    def dominates(self, other):
        return any(a is self for a in other.ancestors())

    def height(self):
        if not self.children:
            return 0
        return 1 + max(c.height() for c in self.children)

    def copy(self):
        n = MN(self.label, self.edge, self.num, self.word, self.lemma,
               self.morph, self.head)
        n.attrs = dict(self.attrs)
        n.ref = self.ref
        for c in self.children:
            n.add(c.copy())
        return n


def runs(nums):
    """Maximal contiguous runs of a sorted list of ints."""
    out = []
    for x in nums:
        if out and out[-1][-1] + 1 == x:
            out[-1].append(x)
        else:
            out.append([x])
    return out


def gapdeg_node(n):
    return len(runs(n.nums())) - 1 if n.children else 0


def gapdeg(root):
    return max(gapdeg_node(n) for n in root.nodes())


# -- spec <-> model ----------------------------------------------------------

def from_spec(node):
    if 'c' in node:
        m = MN(label=node['l'], edge=node.get('e'), head=node.get('h'))
        for c in node['c']:
            m.add(from_spec(c))
    else:
        m = MN(label=node['p'], edge=node.get('e'), num=node['n'],
               word=node['w'], lemma=node.get('lm'), morph=node.get('m'),
               head=node.get('h'))
    if 'x' in node:
        m.attrs = dict(node['x'])
    return m


def to_spec(m):
    if m.children:
        d = {'l': m.label, 'e': m.edge, 'c': [to_spec(c) for c in m.kids()]}
    else:
        d = {'n': m.num, 'w': m.word, 'p': m.label, 'e': m.edge,
             'm': m.morph, 'lm': m.lemma}
    if m.head is not None:
        d['h'] = m.head
    if m.attrs:
        d['x'] = dict(m.attrs)
    return d


def canon(m, fields='wple', attrs=()):
    """Canonical nested tuple.  fields: subset of
       w word, p pos/label, l lemma, m morph, e edge, h head."""
    extra = tuple(m.attrs.get(a) for a in attrs)
    if m.children:
        t = ('N', m.label if 'p' in fields else None,
             m.edge if 'e' in fields else None,
             m.head if 'h' in fields else None) + extra
        return t + (tuple(canon(c, fields, attrs) for c in m.kids()),)
    return ('T', m.num,
            m.word if 'w' in fields else None,
            m.label if 'p' in fields else None,
            m.lemma if 'l' in fields else None,
            m.morph if 'm' in fields else None,
            m.edge if 'e' in fields else None,
            m.head if 'h' in fields else None) + extra


def show(m, fields='wpe'):
    """Compact bracket rendering for witnesses."""
    if m.children:
        lab = m.label if m.label is not None else '~'
        if 'e' in fields and m.edge not in (None, '--'):
            lab += '/' + str(m.edge)
        if m.head:
            lab += "'"
        return '(' + lab + ' ' + ' '.join(show(c, fields) for c in m.kids()) \
            + ')'
    s = '%s:%s/%s' % (m.num, m.word, m.label)
    if 'e' in fields and m.edge not in (None, '--'):
        s += '/' + str(m.edge)
    if m.head:
        s += "'"
    return s


# -- live trees ---------------------------------------------------------------

def build_live(spec_node, T, rng=None, style='export', parent=None):
    """Build a trees.Tree from a spec node through the Tree API only
    (constructor, .children, .parent, .data).  Child lists are stored in
    random order when rng is given.  style decides what the fields that no
    spec sets look like (the three readers differ there)."""
    data = T.make_node_data()
    if 'c' in spec_node:
        data['label'] = spec_node['l']
        data['edge'] = spec_node.get('e')
        if style == 'export':
            data['word'] = '#0'
            data['lemma'] = '--'
            data['morph'] = '--'
        elif style == 'tiger':
            data['lemma'] = '--'
            data['morph'] = '--'
        else:
            data['morph'] = '--'
        node = T.Tree(data)
        kids = [build_live(c, T, rng, style, node) for c in spec_node['c']]
        if rng is not None:
            rng.shuffle(kids)
        node.children = kids
    else:
        data['word'] = spec_node['w']
        data['label'] = spec_node['p']
        data['edge'] = spec_node.get('e')
        data['morph'] = spec_node.get('m')
        data['lemma'] = spec_node.get('lm')
        data['num'] = spec_node['n']
        node = T.Tree(data)
    if 'h' in spec_node:
        node.data['head'] = spec_node['h']
    for k, v in spec_node.get('x', {}).items():
        node.data[k] = v
    node.parent = parent
    return node


def build_live_tree(spec, T, rng=None, style='export'):
    root = build_live(spec['root'], T, rng, style)
    root.data['sid'] = spec['sid']
    return root


ATTRS = ('split', 'head_block', 'block_number')


def snapshot(root, expect_parent_none=True):
    """Walk a live tree through raw attributes.  Return (defects, MN).
    defects is a list of strings; MN is None when the structure cannot
    even be walked (cycle)."""
    defects = []
    seen = {}
    if expect_parent_none and getattr(root, 'parent', None) is not None:
        defects.append('returned node has a parent (label %r)'
                       % (root.parent.data.get('label'),))

    def walk(live, mparent, depth):
        if id(live) in seen:
            defects.append('node reachable twice (label %r)'
                           % (live.data.get('label'),))
            return None
        if depth > 400:
            defects.append('depth > 400 (cycle?)')
            return None
        seen[id(live)] = live
        d = live.data
        m = MN(label=d.get('label'), edge=d.get('edge'), head=d.get('head'))
        m.ref = live
        for a in ATTRS:
            if a in d:
                m.attrs[a] = d[a]
        if mparent is not None:
            if live.parent is not mparent.ref:
                defects.append('child %r of %r has parent pointer to %r'
                               % (d.get('label'), mparent.label,
                                  None if live.parent is None
                                  else live.parent.data.get('label')))
            m.parent = mparent
            mparent.children.append(m)
        if live.children:
            if len(set(id(c) for c in live.children)) != len(live.children):
                defects.append('duplicate entry in child list of %r'
                               % (d.get('label'),))
            for c in list(live.children):
                walk(c, m, depth + 1)
        else:
            m.num = d.get('num')
            m.word = d.get('word')
            m.lemma = d.get('lemma')
            m.morph = d.get('morph')
            if not isinstance(m.num, int) or isinstance(m.num, bool):
                defects.append('childless node %r without token number'
                               % (d.get('label'),))
            if m.word is None:
                defects.append('childless node %r without word'
                               % (d.get('label'),))
        return m

    m = walk(root, None, 0)
    if m is not None and not [x for x in defects if 'twice' in x
                              or 'cycle' in x or 'without token' in x]:
        nums = sorted(t.num for t in _leaves(m))
        if nums != list(range(1, len(nums) + 1)):
            defects.append('token numbers are %r, not 1..%d'
                           % (nums[:12], len(nums)))
    return defects, m


def _leaves(m):
    out = []
    stack = [m]
    while stack:
        n = stack.pop()
        if n.children:
            stack.extend(n.children)
        else:
            out.append(n)
    return out


def walkable(defects):
    return not [x for x in defects if 'twice' in x or 'cycle' in x
                or 'without token' in x or 'token numbers' in x]


def label_multiset(m):
    from collections import Counter
    return Counter(n.label for n in m.nodes() if n.children)


def token_seq(m, fields='wp'):
    return [tuple(getattr(t, {'w': 'word', 'p': 'label', 'l': 'lemma',
                              'm': 'morph', 'e': 'edge'}[f])
                  for f in fields) for t in m.toks()]


def parent_map(m):
    """{id(live node): id(live parent)} for a snapshot with refs."""
    return {id(n.ref): (id(n.parent.ref) if n.parent is not None else None)
            for n in m.nodes()}

"""C18 -- processing is sentence-local, deterministic and history-independent
(DESIGN 5/C18).  An event log of a long in-process session (reader iterations,
interleaved readers, transformations with alternating terminal files, writers,
grammar extraction / binarization / output, analysis tasks, transitions,
in-process command lines) is checked offline: equal operations give equal
outputs wherever they occur and equal the output of the single operation in a
fresh process (several hash seeds); results are additive over concatenated
treebanks; no hidden global state appears (H6); an operation opens only its
own files (H5)."""
import copy
import json
import os
import subprocess
import sys

from . import c18_ops, codec, common, gen, lcfrs, model, probe, repo

PROPERTY = 'C18'
LEVEL = 'exploration'
RULE = ('sessions of 25 (quick) / 40 (thorough) operations drawn with '
        'repetition from a pool of 10 operation instances per session '
        '(readers of all four formats incl. two interleaved generators, '
        'transformations incl. insert/substitute with two alternating '
        'terminal files, five writers incl. one option dict shared over '
        'several trees, grammar extraction + binarization (deterministic / '
        'Markov) + PMCFG/RCG/LoPar output, analysis tasks, three transition '
        'systems, in-process `treetools transform/grammar` command lines); '
        'each pool operation is also executed alone in fresh processes under '
        'PYTHONHASHSEED 0, 1 and random; additivity A+B for conversions, '
        'grammars, statistics and transitions; non-trivial = operation that '
        'occurs at >= 2 positions of a session with other operations in '
        'between; distinct = distinct operation instance')
ASSUMPTIONS = ['files that represent sets (grammar, lexicon, start, oc files) '
               'are compared as sorted line multisets',
               'allowed global state: the node-id counter Tree.newid and the '
               'two documented terminal-file caches (function attributes fn / '
               'terminals of insert_terminals and substitute_terminals)',
               'terminal files with different names have different content; '
               'the same name always has the same content (the property '
               'quantifies over files with different names)']
WATCHDOG = {'quick': 900, 'thorough': 5400}
MIN = {'quick': {'distinct': 600,
                 'hooks': {'session operations': 3000, 'fresh process runs': 150,
                           'global state snapshots': 3000,
                           'additivity checks': 60},
                 'strata': {'slash annotation under hash seeds': 40,
                            'punctuation-only constituent under ten node-id '
                            'offsets': 200,
                            'bracket between hyphens under hash seeds': 28,
                            'op read2': 50, 'op pipeline': 80,
                            'read2: compressed inputs with the same base '
                            'name': 12, 'op cli': 200, 'op grammar': 200,
                            'op trans': 300, 'op write_many': 50}},
       'thorough': {'distinct': 8000,
                    'hooks': {'fresh process runs': 5000}}}


# ---- H6: process-global state ---------------------------------------------------------

ALLOWED = {'trees.Tree.newid', 'transform.insert_terminals.fn',
           'transform.insert_terminals.terminals',
           'transform.substitute_terminals.fn',
           'transform.substitute_terminals.terminals'}


def _freeze(v, depth=0):
    if depth > 6:
        return '...'
    if isinstance(v, (str, int, float, bool, type(None), bytes)):
        return v
    if isinstance(v, dict):
        return ('dict', tuple(sorted((repr(k), _freeze(x, depth + 1))
                                     for k, x in v.items())))
    if isinstance(v, (list, tuple)):
        return (type(v).__name__, tuple(_freeze(x, depth + 1) for x in v))
    if isinstance(v, (set, frozenset)):
        return ('set', tuple(sorted(repr(x) for x in v)))
    return ('obj', type(v).__name__)


def global_state(R):
    st = {}
    import types
    for mname in repo.MODS:
        mod = getattr(R, mname)
        for name, v in vars(mod).items():
            if name.startswith('__'):
                continue
            key = '%s.%s' % (mname, name)
            if isinstance(v, types.ModuleType):
                continue
            if isinstance(v, types.FunctionType):
                fn = getattr(v, '_vt_orig', v)
                for a, x in vars(fn).items():
                    if a.startswith('_vt'):
                        continue
                    st['%s.%s' % (key, a)] = _freeze(x)
                st[key + '.__defaults__'] = _freeze(fn.__defaults__)
                st[key + '.__kwdefaults__'] = _freeze(fn.__kwdefaults__)
            elif isinstance(v, type):
                for a, x in vars(v).items():
                    if a.startswith('__') or callable(x):
                        continue
                    if '%s.%s' % (key, a) == 'trees.Tree.newid':
                        continue
                    st['%s.%s' % (key, a)] = _freeze(x)
            else:
                st[key] = _freeze(v)
    return st


def state_diff(a, b):
    out = []
    for k in sorted(set(a) | set(b)):
        if a.get(k, '<absent>') != b.get(k, '<absent>') and k not in ALLOWED:
            out.append(k)
    return out


# ---- pool of operations ---------------------------------------------------------------------

def small_bank(rng, k, cont=False, pools=None):
    pools = pools or gen.Pools(edges=['HD', 'NK', 'SB', '--'])
    first = 0 if rng.random() < 0.25 else 1     # a sentence numbered 0
    bank = [gen.tree(rng, rng.randint(1, 8), pools,
                     max_arity=rng.choice([2, 3, 4]), p_unary=0.15,
                     moves=0 if cont else rng.choice([0, 1, 2]),
                     sid=j + first)
            for j in range(k)]
    if k >= 2 and rng.random() < 0.2:
        # two readings of one sentence: the last tree has the words and tags
        # of an earlier one, and another structure
        bank[-1] = gen.same_sentence(
            rng, bank[rng.randrange(k - 1)], pools, sid=bank[-1]['sid'],
            max_arity=rng.choice([2, 3, 4]), p_unary=0.15,
            moves=0 if cont else rng.choice([0, 1, 2]))
    return bank


def trace_spec(rng):
    """PTB-like tree: two or three co-indexed fillers and traces, so that
    ptb_delete_traces with keepall + slash has annotation paths that share
    nodes."""
    pools = gen.Pools(cats=['S', 'NP', 'VP', 'SBAR', 'WHNP', 'PP'],
                      pos=['NN', 'VBD', 'DT', 'IN', 'WP'])
    for attempt in range(20):
        spec = gen.tree(rng, rng.randint(7, 12), pools, max_arity=3,
                        p_unary=0.1, moves=0, root_pieces=1,
                        sid=rng.choice([1, 2]))
        cons = [n for n in gen.walk(spec['root'])
                if 'c' in n and n is not spec['root']]
        toks = gen.tokens_of(spec['root'])
        k = rng.choice([2, 2, 3])
        if len(cons) < k + 1 or len(toks) < k + 3:
            continue
        fillers = rng.sample(cons, k)
        inside = set()
        for f in fillers:
            inside.update(id(t) for t in gen.tokens_of(f))
        free = [t for t in toks if id(t) not in inside]
        if len(free) < k:
            continue
        traces = rng.sample(free, k)
        for i, (f, t) in enumerate(zip(fillers, traces)):
            f['l'] = f['l'] + '-%d' % (i + 1)
            t['w'] = rng.choice(['*T*', '*', '*ICH*']) + '-%d' % (i + 1)
            t['p'] = '-NONE-'
        return spec
    return spec


def make_op(rng, tag, tfiles):
    kind = rng.choice(['read', 'read', 'read2', 'pipeline', 'trans', 'trans',
                       'trans',
                       'write', 'write_many', 'grammar', 'grammar', 'analysis',
                       'transitions', 'cli', 'cli'])
    if kind in ('read', 'read2', 'pipeline'):
        def part(fmt=None, k=None):
            fmt = fmt or rng.choice(['export', 'brackets', 'discobrackets',
                                     'tigerxml'])
            bank = small_bank(rng, k or rng.randint(1, 4),
                              cont=fmt == 'brackets')
            text = {'export': lambda: codec.export_encode(
                        bank, v4=rng.random() < 0.4),
                    'brackets': lambda: codec.brackets_encode(bank),
                    'discobrackets': lambda: codec.discobrackets_encode(bank),
                    'tigerxml': lambda: codec.tigerxml_encode(bank)}[fmt]()
            opts = {'quiet': True}
            if rng.random() < 0.3:
                opts['gf_split'] = True
            if fmt in ('export', 'tigerxml') and rng.random() < 0.3:
                opts['continuous'] = True
            d = {'fmt': fmt, 'text': text, 'opts': opts}
            if fmt != 'tigerxml' and rng.random() < 0.25:
                # a compressed input under one of very few path names: other
                # operations of the session write other content to the same
                # path before they read it
                d.update(gz=True, dir=rng.choice(['dirA', 'dirB']),
                         name=rng.choice(['train', 'corpus']))
            return d
        if kind == 'read':
            return dict(part(), k='read')
        if kind == 'pipeline':
            fmt = rng.choice(['export', 'brackets', 'tigerxml'])
            seqs = [['add_topnode'], ['negra_mark_heads', 'binarize'],
                    ['negra_mark_heads', 'binarize', 'add_topnode'],
                    ['root_attach', 'negra_mark_heads', 'boyd_split',
                     'raising'], ['collapse_unary_chains'], []]
            names = rng.choice(seqs)
            dfmt = 'brackets' if fmt == 'brackets' \
                else rng.choice(['export', 'discobrackets'])
            if names[-1:] == ['raising'] and rng.random() < 0.6:
                # made continuous: the bracket writer has to take them
                dfmt = 'brackets'
            return {'k': 'pipeline', 'a': part(fmt, rng.randint(2, 5)),
                    'b': part(None, rng.randint(1, 2)),
                    'names': names, 'dfmt': dfmt}
        if rng.random() < 0.25:
            # two gzip-compressed inputs with the same base name in different
            # directories, the first one longer than any read buffer
            fmt = rng.choice(['export', 'brackets', 'discobrackets'])
            a, b = part(fmt, rng.randint(70, 110)), part(fmt)
            if rng.random() < 0.5:
                a, b = b, a
            name = rng.choice(['train', 'corpus'])
            a.update(gz=True, dir='dirA', name=name)
            b.update(gz=True, dir='dirB', name=name)
            return {'k': 'read2', 'a': a, 'b': b}
        a, b = part(), part()
        if a.get('gz') and b.get('gz') and (a['dir'], a['name'], a['fmt']) == \
                (b['dir'], b['name'], b['fmt']):
            # two inputs of one operation are two files
            b['dir'] = 'dirB' if a['dir'] == 'dirA' else 'dirA'
        return {'k': 'read2', 'a': a, 'b': b}
    if kind == 'trans':
        r = rng.random()
        pools = gen.Pools(p_punct=0.3, edges=['HD', 'NK', 'SB', '--'])
        spec = gen.tree(rng, rng.randint(2, 9), pools,
                        max_arity=rng.choice([2, 3, 5]), p_unary=0.15,
                        moves=rng.choice([0, 1, 2]), sid=rng.choice([1, 2]))
        if r > 0.85:
            params = rng.choice([{'keepall': True, 'slash': True},
                                 {'keepall': True, 'slash': True,
                                  'keepcoindex': True},
                                 {'keep': '*T*,*', 'slash': True}, {}])
            return {'k': 'trans', 'names': ['ptb_delete_traces'],
                    'spec': trace_spec(rng), 'params': params,
                    'shuffle': rng.randrange(99)}
        if r < 0.4:
            name = rng.choice(['insert_terminals', 'substitute_terminals'])
            tname = rng.choice(sorted(tfiles))
            return {'k': 'trans', 'names': [name], 'spec': spec,
                    'params': {'quiet': True}, 'tname': tname,
                    'tfile': tfiles[tname], 'shuffle': rng.randrange(99)}
        if r > 0.7:
            # productions for which the two head-rule presets disagree
            hp = gen.Pools(cats=['VP', 'PP', 'NP', 'ADJP', 'S'],
                           pos=['MD', 'IN', 'DT', 'NN', 'RB', 'JJ', 'VB'],
                           words=['a', 'b'])
            return {'k': 'trans', 'names': ['mark_heads_by_rules'],
                    'spec': gen.tree(rng, rng.randint(2, 4), hp, max_arity=3,
                                     p_unary=0, moves=0, sid=1),
                    'params': {'mark_heads_preset': rng.choice(['negra',
                                                                'ptb'])},
                    'shuffle': 0}
        seqs = [['root_attach', 'negra_mark_heads', 'boyd_split', 'raising'],
                ['negra_mark_heads', 'binarize'], ['punctuation_delete'],
                ['punctuation_verylow'], ['collapse_unary_chains'],
                ['add_topnode'], ['punctuation_root'],
                ['root_attach', 'punctuation_symetrify']]
        return {'k': 'trans', 'names': rng.choice(seqs), 'spec': spec,
                'params': {}, 'shuffle': rng.randrange(99)}
    if kind == 'write':
        fmt = rng.choice(['export', 'brackets', 'discobrackets', 'tigerxml',
                          'terminals'])
        spec = small_bank(rng, 1, cont=fmt == 'brackets')[0]
        opts = {}
        if rng.random() < 0.4:
            opts['gf'] = True
        if rng.random() < 0.3:
            opts['brackets_emptyroot'] = True
        return {'k': 'write', 'fmt': fmt, 'spec': spec, 'opts': opts,
                'shuffle': rng.randrange(99)}
    if kind == 'write_many':
        fmt = rng.choice(['brackets', 'discobrackets', 'export'])
        specs = small_bank(rng, rng.randint(2, 4), cont=fmt == 'brackets')
        opts = {'brackets_emptyroot': True}
        if rng.random() < 0.5:
            opts['gf'] = True
        return {'k': 'write_many', 'fmt': fmt, 'specs': specs, 'opts': opts}
    if kind == 'grammar':
        fmt = rng.choice(['pmcfg', 'rcg', 'lopar'])
        bank = small_bank(rng, rng.randint(1, 4), cont=fmt == 'lopar',
                          pools=gen.Pools(cats=['S', 'NP', 'VP'],
                                          pos=['NN', 'VV', 'ART']))
        mode = rng.choice([None, None, {'v': 1, 'h': 2}, {'v': 2, 'h': 1},
                           {'v': 1, 'h': 1, 'nofanout': True}])
        reo = rng.choice([None, 'none', 'optimal'])
        if mode is not None and reo is None:
            reo = 'none'
        return {'k': 'grammar', 'bank': bank, 'mode': mode, 'reo': reo,
                'fmt': fmt, 'tag': tag}
    if kind == 'analysis':
        return {'k': 'analysis', 'bank': small_bank(rng, rng.randint(1, 4)),
                'task': rng.choice(['GapDegree', 'PosTags', 'SentenceCount'])}
    if kind == 'transitions':
        system = rng.choice(['topdown', 'inorder', 'gap'])
        spec = gen.tree(rng, rng.randint(1, 8), gen.Pools(), max_arity=2,
                        p_unary=0.2, moves=rng.choice([0, 1, 2])
                        if system == 'gap' else 0, root_pieces=1)
        gen.assign_heads(rng, spec)
        return {'k': 'transitions', 'system': system, 'spec': spec}
    # cli
    sub = rng.choice(['transform', 'transform', 'grammar', 'grammar',
                      'treeanalysis', 'transitions'])
    sfmt = rng.choice(['export', 'brackets', 'tigerxml', 'discobrackets'])
    bank = small_bank(rng, rng.randint(1, 4), cont=True,
                      pools=gen.Pools(cats=['S', 'NP', 'VP'],
                                      edges=['HD', 'NK', '--']))
    text = {'export': lambda: codec.export_encode(bank),
            'brackets': lambda: codec.brackets_encode(bank),
            'discobrackets': lambda: codec.discobrackets_encode(bank),
            'tigerxml': lambda: codec.tigerxml_encode(bank)}[sfmt]()
    if sub == 'transform':
        dfmt = rng.choice(['export', 'brackets', 'discobrackets', 'tigerxml',
                           'terminals'])
        argv = ['transform', '{src}', '{dest}', '--src-format', sfmt,
                '--dest-format', dfmt, '--src-opts', 'quiet']
        r = rng.random()
        if r < 0.4:
            argv += ['--trans', 'negra_mark_heads', 'binarize']
        elif r < 0.6:
            # options that carry values
            argv += ['--trans', 'filter_by_length', '--params',
                     'filteroperator:%s' % rng.choice(['gt', 'lt'])] + \
                (['filtervalue:%d' % rng.randint(20, 40), 'filteroperator:eq']
                 if rng.random() < 0.5 else []) + \
                ['filtervalue:%d' % rng.randint(2, 5)]
        r = rng.random()
        if r < 0.3:
            argv += ['--dest-opts', 'brackets_emptyroot']
        elif r < 0.5:
            argv += ['--dest-opts', 'gf', 'gf_separator:=']
        if rng.random() < 0.25:
            # two parts or three (sizes that the 3..5 trees of the bank meet)
            spec_ = rng.choice(['50%_rest', '1#_1#_rest', '1#_rest_1#',
                                'rest_1#_1#', '30%_30%_rest', '2#_rest'])
            if spec_ != '50%_rest':
                bank = small_bank(rng, rng.randint(3, 5), cont=True,
                                  pools=gen.Pools(cats=['S', 'NP', 'VP'],
                                                  edges=['HD', 'NK', '--']))
                text = {'export': lambda: codec.export_encode(bank),
                        'brackets': lambda: codec.brackets_encode(bank),
                        'discobrackets': lambda:
                        codec.discobrackets_encode(bank),
                        'tigerxml': lambda: codec.tigerxml_encode(bank)
                        }[sfmt]()
            argv += ['--split', spec_]
        return {'k': 'cli', 'argv': argv, 'sfmt': sfmt, 'text': text,
                'tag': tag}
    if sub == 'treeanalysis':
        return {'k': 'cli', 'argv': ['treeanalysis', '{src}', rng.choice(
            ['GapDegree', 'PosTags', 'SentenceCount']), '--src-format', sfmt,
            '--src-opts', 'quiet'], 'sfmt': sfmt, 'text': text, 'tag': tag,
            'stdout': True}
    if sub == 'transitions':
        argv = ['transitions', '{src}', '{dest}', rng.choice(
            ['topdown', 'inorder', 'gap']), '--transform', 'negra_mark_heads',
            'binarize', '--src-format', sfmt, '--src-opts', 'quiet']
        if rng.random() < 0.4:
            argv += ['--dest-opts', 'pos']
        return {'k': 'cli', 'argv': argv, 'sfmt': sfmt, 'text': text,
                'tag': tag}
    argv = ['grammar', '{src}', '{dest}', rng.choice(['treebank', 'leftright',
                                                      'optimal']),
            '--src-format', sfmt, '--dest-format',
            rng.choice(['pmcfg', 'rcg', 'lopar']), '--src-opts', 'quiet']
    if rng.random() < 0.4 and argv[3] != 'treebank':
        argv += ['--markov', 'v:1', 'h:%d' % rng.randint(1, 2)]
    return {'k': 'cli', 'argv': argv, 'sfmt': sfmt, 'text': text, 'tag': tag,
            'setlike': True}


def twin_of(op, rng):
    """The same operation on the same input with other parameters: whatever
    the code remembers about one must not leak into the other."""
    t = copy.deepcopy(op)
    if op['k'] == 'trans' and op['names'] == ['mark_heads_by_rules']:
        t['params']['mark_heads_preset'] = \
            'ptb' if op['params']['mark_heads_preset'] == 'negra' else 'negra'
    elif op['k'] == 'trans' and op['names'] == ['negra_mark_heads',
                                                 'binarize']:
        t['params'] = {} if op['params'] else {'bare_bin_labels': True}
    elif op['k'] in ('write', 'write_many'):
        if 'gf' in t['opts']:
            del t['opts']['gf']
        else:
            t['opts']['gf'] = True
    elif op['k'] == 'read' and not op.get('gz'):
        if 'gf_split' in t['opts']:
            del t['opts']['gf_split']
        else:
            t['opts']['gf_split'] = True
    elif op['k'] == 'grammar' and op.get('mode') is not None:
        t['mode'] = {'v': 2, 'h': 1} if op['mode'] != {'v': 2, 'h': 1} \
            else {'v': 1, 'h': 2}
        t['tag'] = op['tag'] + 't'
    else:
        return None
    return t


def fresh(ctx, op, hashseed):
    opfile = ctx.path('.op.json')
    with open(opfile, 'w') as f:
        json.dump(op, f)
    d = ctx.path('.fresh')
    os.mkdir(d)
    env = dict(os.environ)
    env.pop('TREETOOLS_VERIF', None)
    env['PYTHONHASHSEED'] = str(hashseed)
    env['PYTHONDONTWRITEBYTECODE'] = '1'
    here = os.path.dirname(os.path.dirname(os.path.abspath(__file__)))
    env['PYTHONPATH'] = here
    try:
        p = subprocess.run([sys.executable, '-m', 'vt.c18_ops', opfile, d],
                           stdout=subprocess.PIPE, stderr=subprocess.PIPE,
                           env=env, timeout=120, cwd=here)
    except subprocess.TimeoutExpired:
        return None, 'timeout'
    ctx.hook('fresh process runs')
    if p.returncode != 0:
        return None, p.stderr.decode('utf-8', 'replace')[-400:]
    try:
        return json.loads(p.stdout.decode('utf-8')), None
    except ValueError:
        return None, 'unparsable output %r' % p.stdout[:200]


def norm(x):
    """JSON round trip so that session and fresh outputs are comparable."""
    return json.loads(json.dumps(x, sort_keys=True))


def op_shape(op):
    s = op['k']
    if s == 'trans':
        s += ':' + '+'.join(op['names'])
    elif s in ('read', 'write', 'write_many', 'grammar'):
        s += ':' + op['fmt']
    elif s == 'pipeline':
        s += ':' + '+'.join(op['names'])
    elif s == 'cli':
        s += ':' + op['argv'][0]
    return s


def run_session(ctx, si, rng):
    R = ctx.R
    tmp = ctx.path('.session')
    os.mkdir(tmp)
    tfiles = {'tf_A.txt': [[1, 2, 'EINS', 'XA'], [2, 1, 'ZWEI', 'XB']],
              'tf_B.txt': [[1, 1, 'ONE', 'YA'], [1, 3, 'THREE', 'YB']],
              # refused: the same position twice
              'tf_C.txt': [[1, 2, 'DOPPELT', 'ZA'], [1, 2, 'NOCHMAL', 'ZB'],
                           [2, 1, 'ZWEI', 'ZC']]}
    pool = [make_op(rng, 'p%d' % i, tfiles) for i in range(10)]
    for op in list(pool):
        t = twin_of(op, rng)
        if t is not None and len(pool) < 14:
            op['twin'] = t['twin'] = True
            pool.append(t)
    length = ctx.pick(25, 40)
    seq = [rng.randrange(len(pool)) for _ in range(length)]
    outputs = {}
    positions = {}
    suspect = []
    base_state = global_state(R)
    ctx.hook('global state snapshots')
    for pos, pi in enumerate(seq):
        op = pool[pi]
        case = {'kind': 'session', 'pool': pool, 'seq': seq[:pos + 1],
                'focus': pi}
        declared = set()
        with probe.audit_opens() as log:
            out = norm(c18_ops.execute(R, copy.deepcopy(op), tmp, declared))
        ctx.hook('session operations')
        ctx.stratum('op ' + op['k'])
        # H5: files opened below the scratch area belong to this operation
        for path, mode in log:
            ap = os.path.abspath(path)
            if ap.startswith(tmp + os.sep) and ap not in declared and \
                    not any(ap.startswith(d + '.') for d in declared):
                ctx.fail('C18:opens-foreign-file:' + op_shape(op), case,
                         'operation %d (%s) opened %s (mode %s) which belongs '
                         'to another operation' % (pos, op_shape(op), ap, mode))
        # H6: no new hidden global state
        st = global_state(R)
        ctx.hook('global state snapshots')
        changed = state_diff(base_state, st)
        if changed:
            # New module-level state is a lead, not a verdict: a correct
            # cache changes nothing a user can see.  The session widens its
            # behavioural probes instead (every operation is re-run at the
            # end and compared with a fresh process).
            suspect.extend(c for c in changed if c not in suspect)
            ctx.stratum('module-level state changed: probes widened')
            base_state = st
        if pi in outputs:
            if out != outputs[pi]:
                ctx.fail('C18:history-dependent-output:' + op_shape(op), case,
                         'operation %s gives a different result at position '
                         '%d than at position %d: %s vs %s'
                         % (op_shape(op), pos, positions[pi][0],
                            str(out)[:300], str(outputs[pi])[:300]))
        else:
            outputs[pi] = out
        positions.setdefault(pi, []).append(pos)
        # the command run a second time with the same parsed arguments
        if op['k'] == 'cli' and out[:1] != ['EXCEPTION']:
            twice = norm(c18_ops.execute(R, dict(copy.deepcopy(op),
                                                 reuse_args=True), tmp,
                                         set()))
            ctx.hook('command run twice with one arguments object')
            if twice != out:
                ctx.fail('C18:second-run-with-the-same-arguments-differs:'
                         + op_shape(op), case, 'second run %s | single run %s'
                         % (str(twice)[:300], str(out)[:300]))
        # a treebank read in between does not change what becomes of this one
        if op['k'] == 'pipeline':
            alone = norm(c18_ops.execute(R, dict(copy.deepcopy(op), b=None),
                                         tmp, set()))
            ctx.hook('pipeline with and without another reader call')
            if str(alone).split('|other|')[0] != str(out).split('|other|')[0]:
                ctx.fail('C18:reader-call-in-between-changes-result:'
                         + '+'.join(op['names']), case,
                         'treebank read, another treebank read, first one '
                         'transformed (%s) and written: %s | without the '
                         'other reader call: %s'
                         % (op['names'], str(out)[:300], str(alone)[:300]))
            streamed = norm(c18_ops.execute(
                R, dict(copy.deepcopy(op), b=None, stream=True), tmp, set()))
            ctx.hook('pipeline streamed and from a list')
            if str(streamed).split('|other|')[0] != \
                    str(alone).split('|other|')[0]:
                ctx.fail('C18:result-depends-on-reading-ahead:'
                         + '+'.join(op['names']), case,
                         'each tree transformed (%s) and written as soon as '
                         'it is read: %s | after the whole file has been '
                         'read: %s' % (op['names'], str(streamed)[:300],
                                       str(alone)[:300]))
            import zlib
            observers = ('terminals', 'numbering', 'analysis', 'extract',
                         'transitions', 'navigation', 'labels', 'bracketstry',
                         'bracketstry')
            pres = ['export', 'tigerxml', observers[zlib.crc32(
                repr(sorted(op.items(), key=str)).encode('utf-8'))
                % len(observers)]]
            if op['names'][-1:] == ['raising'] and 'bracketstry' not in pres:
                # trees that are discontinuous when read and continuous when
                # written: an earlier attempt to write them in bracket format
                # was refused, and leaves no trace
                pres.append('bracketstry')
            for pre in pres:
                written = norm(c18_ops.execute(
                    R, dict(copy.deepcopy(op), b=None, prewrite=pre), tmp,
                    set()))
                ctx.hook('pipeline with the trees written once before')
                if str(written).split('|other|')[0] != \
                        str(alone).split('|other|')[0]:
                    mech = 'C18:writing-a-tree-changes-later-results:' \
                        if pre in ('export', 'tigerxml', 'terminals') else \
                        'C18:looking-at-a-tree-changes-later-results:%s:' % pre
                    ctx.fail(mech + '+'.join(op['names']), case,
                             'every tree written / looked at (%s) before the '
                             'transformations (%s): %s | without: %s'
                             % (pre, op['names'], str(written)[:300],
                                str(alone)[:300]))
                    break
                ctx.stratum('pipeline: trees looked at before (%s)' % pre)
            if op['b'].get('fmt') and out[:1] != ['EXCEPTION']:
                solo = norm(c18_ops.execute(
                    R, {'k': 'pipeline', 'a': op['b'], 'names': [],
                        'dfmt': 'export'}, tmp, set()))
                if str(solo).split('|other|')[0] != \
                        str(out).split('|other|')[-1]:
                    ctx.fail('C18:live-trees-change-what-a-reader-yields',
                             case, 'second treebank written %s | read alone '
                             '%s' % (str(out).split('|other|')[-1][:300],
                                     str(solo)[:300]))
        if op['k'] == 'read2' and op['a'].get('gz') and op['b'].get('gz') \
                and op['a'].get('name') == op['b'].get('name'):
            ctx.stratum('read2: compressed inputs with the same base name')
        if op['k'] in ('read', 'pipeline') and (op.get('gz') or
                                                (op.get('a') or {}).get('gz')):
            ctx.stratum('compressed input under a path that other '
                        'operations rewrite')
        # read2 == the two single reads
        if op['k'] == 'read2':
            singles = []
            for part in (op['a'], op['b']):
                singles.append(norm(c18_ops.execute(
                    R, dict(part, k='read'), tmp, set())))
            if out[:1] != ['EXCEPTION'] and out != singles:
                ctx.fail('C18:interleaved-readers-interfere', case,
                         'two readers advanced alternately give %s, read '
                         'separately %s' % (str(out)[:300], str(singles)[:300]))
    if suspect:
        # every operation once more, in pool order, after the whole history
        for pi in sorted(outputs):
            again = norm(c18_ops.execute(R, copy.deepcopy(pool[pi]), tmp,
                                         set()))
            ctx.hook('session operations')
            if again != outputs[pi]:
                ctx.fail('C18:history-dependent-output:' + op_shape(pool[pi]),
                         {'kind': 'session', 'pool': pool, 'seq': seq,
                          'focus': pi},
                         'operation %s gives a different result when '
                         'repeated at the end of the session (module state '
                         'that changed: %r): %s vs %s'
                         % (op_shape(pool[pi]), suspect[:3],
                            str(again)[:300], str(outputs[pi])[:300]))
    # fresh-process references
    chosen = sorted(outputs)
    rng.shuffle(chosen)
    # the two members of a twin pair (same input, other parameters) first
    twins = [pi for pi in chosen if pool[pi].get('twin')]
    chosen = twins[:2] + [pi for pi in chosen if pi not in twins[:2]]
    for pi in chosen[:len(chosen) if suspect else ctx.pick(3, 4)]:
        for hs in ([0] if ctx.quick() or suspect else [0, 1]) + \
                [rng.choice([1, 7, 12345, 'random'])]:
            out, err = fresh(ctx, pool[pi], hs)
            case = {'kind': 'fresh', 'op': pool[pi], 'hashseed': hs}
            if out is None:
                ctx.notes.append('fresh run failed: %s' % err)
                continue
            if out != outputs[pi]:
                ctx.fail('C18:differs-from-fresh-process:' + op_shape(pool[pi]),
                         dict(case, pool=pool, seq=seq),
                         'in the session: %s | alone in a fresh process '
                         '(PYTHONHASHSEED=%s): %s'
                         % (str(outputs[pi])[:300], hs, str(out)[:300]))
    if suspect:
        ctx.notes.append('module-level state changed during a session (%s); '
                         'judged by behaviour only' % ', '.join(suspect[:4]))
    for pi, op in enumerate(pool):
        ctx.case(op, nontrivial=len(positions.get(pi, [])) >= 2)
    if si < 2:
        ctx.sample({'session': [op_shape(pool[i]) for i in seq]}, 2)


# ---- additivity -----------------------------------------------------------------------------

def additivity(ctx, rng):
    R = ctx.R
    tmp = ctx.path('.add')
    os.mkdir(tmp)
    what = rng.choice(['cli', 'grammar', 'analysis', 'transitions', 'read',
                       'read'])
    cont = what != 'analysis'
    A = small_bank(rng, rng.randint(1, 3), cont=cont)
    B = small_bank(rng, rng.randint(1, 3), cont=cont)
    if what == 'grammar':
        # few labels, so that the same production is seen in both treebanks;
        # discontinuous trees more often than not
        gp = gen.Pools(cats=['S', 'NP', 'VP'], pos=['NN', 'VV', 'ART'])
        disc = rng.random() < 0.6
        A = small_bank(rng, rng.randint(1, 3), cont=not disc, pools=gp)
        B = small_bank(rng, rng.randint(1, 3), cont=not disc, pools=gp)
        if rng.random() < 0.4:
            # the same production over the same tags twice: once its two
            # children side by side, once a continuous node whose first child
            # is discontinuous and has its gap filled by the second child
            def tok(n, w, p_):
                return {'n': n, 'w': w, 'p': p_, 'e': '--', 'm': '--',
                        'lm': '--'}

            def sent(order):
                a, b, c = order
                return {'sid': 1, 'root': {'l': 'VROOT', 'e': '--', 'c': [
                    {'l': 'VP', 'e': '--', 'c': [
                        {'l': 'NP', 'e': '--', 'c': [tok(a, 'das', 'ART'),
                                                     tok(b, 'Buch', 'NN')]},
                        {'l': 'VV', 'e': '--', 'c': [tok(c, 'lesen', 'VV')]
                         } if rng.random() < 0.5 else tok(c, 'lesen', 'VV')]}]}}
            st = rng.getstate()
            plain = sent((1, 2, 3))
            rng.setstate(st)
            inter = sent((1, 3, 2))
            if rng.random() < 0.5:
                A.append(plain), B.append(inter)
            else:
                A.append(inter), B.append(plain)
            ctx.stratum('grammar additivity: one production side by side and '
                        'interleaved')
    if what == 'read' and rng.random() < 0.15:
        # files longer than any read buffer (> 8192 characters together)
        A = small_bank(rng, rng.randint(40, 70), cont=True)
        B = small_bank(rng, rng.randint(40, 70), cont=True)
    for j, s in enumerate(A):
        s['sid'] = j + 1
    for j, s in enumerate(B):
        s['sid'] = len(A) + j + 1
    case = {'kind': 'additive', 'A': A, 'B': B}
    case['what'] = what
    case['fmt'] = rng.choice(['export', 'brackets', 'discobrackets',
                              'tigerxml'])
    case['dfmt'] = rng.choice(['export', 'terminals', 'discobrackets',
                               'brackets', 'tigerxml'])
    case['trans'] = rng.choice([[], ['negra_mark_heads', 'binarize'],
                                ['punctuation_verylow']])
    case['mode'] = rng.choice([None, {'v': 1, 'h': 1}])
    case['system'] = rng.choice(['topdown', 'inorder'])
    additive_case(ctx, case, tmp)


def additive_case(ctx, case, tmp):
    R = ctx.R
    A, B, what = case['A'], case['B'], case['what']

    def run(op):
        return norm(c18_ops.execute(R, op, tmp, set()))
    if what == 'read':
        fmt = case['fmt']
        enc = {'export': codec.export_encode, 'brackets': codec.brackets_encode,
               'discobrackets': codec.discobrackets_encode,
               'tigerxml': codec.tigerxml_encode}[fmt]
        outs = []
        for bank, first in ((A, 1), (B, len(A) + 1), (A + B, 1)):
            opts = {'quiet': True}
            if fmt in ('brackets', 'discobrackets'):
                opts['brackets_firstid'] = first
            outs.append(run({'k': 'read', 'fmt': fmt, 'text': enc(bank),
                             'opts': opts}))
        if outs[0] + outs[1] != outs[2]:
            ctx.fail('C18:not-additive:read-%s' % fmt, case,
                     'reading A+B gives %s, reading A and B separately %s'
                     % (str(outs[2])[-300:], str(outs[0] + outs[1])[-300:]))
            return
    elif what == 'cli':
        dfmt = case['dfmt']
        trans = case['trans']
        argv = ['transform', '{src}', '{dest}', '--src-format', 'export',
                '--dest-format', dfmt, '--src-opts', 'quiet']
        if trans:
            argv += ['--trans'] + trans
        outs = []
        for tag, bank in (('a', A), ('b', B), ('ab', A + B)):
            outs.append(run({'k': 'cli', 'argv': argv, 'sfmt': 'export',
                             'text': codec.export_encode(bank), 'tag': tag}))
        if any(o[:1] == ['EXCEPTION'] or o[0] != 0 for o in outs):
            ctx.fail('C18:additivity-cli-fails', case, str(outs)[:300])
            return
        fa, fb, fab = [o[1][''] for o in outs]
        if dfmt == 'tigerxml':
            strip = lambda t: t.replace("<?xml version='1.0'?>\n<corpus>\n<body>\n", '').replace('</body>\n</corpus>', '')
            fa, fb, fab = strip(fa), strip(fb), strip(fab)
        if fa + fb != fab:
            ctx.fail('C18:not-additive:cli-%s' % dfmt, case,
                     'transform %s: out(A+B) != out(A)+out(B): %r vs %r'
                     % (trans, fab[-200:], (fa + fb)[-200:]))
            return
    elif what == 'grammar':
        mode = case['mode']
        outs = []
        for tag, bank in (('a', A), ('b', B), ('ab', A + B), ('ba', B + A)):
            outs.append(run({'k': 'grammar', 'bank': bank, 'mode': mode,
                             'reo': 'none' if mode else None, 'fmt': 'pmcfg',
                             'tag': tag}))
        try:
            dec = [codec.pmcfg_decode('\n'.join(o['pmcfg'])) for o in outs]
            lex = [codec.lex_decode('\n'.join(o['lex'])) for o in outs]
        except Exception as e:
            ctx.fail('C18:additivity-grammar-undecodable', case, repr(e))
            return
        if dec[0] + dec[1] != dec[2] or lex[0] + lex[1] != lex[2] \
                or dec[3] != dec[2] or lex[3] != lex[2]:
            ctx.fail('C18:not-additive:grammar%s' % ('-markov' if mode else ''),
                     case, 'grammar(A+B) != grammar(A)+grammar(B), or '
                     'grammar(B+A) differs from it: %r'
                     % (list(((dec[0] + dec[1]) - dec[2]).items())[:2]
                        + list((dec[2] - (dec[0] + dec[1])).items())[:2]
                        + list((dec[3] - dec[2]).items())[:2]
                        + list((dec[2] - dec[3]).items())[:2],))
            return
    elif what == 'analysis':
        import re
        from collections import Counter

        def table(report):
            """totals and every 'Gap degree k: n trees|nodes' row"""
            t = Counter()
            mt = re.search(r'(\d+) trees, (\d+) nodes', report)
            t['trees'], t['nodes'] = int(mt.group(1)), int(mt.group(2))
            for k_, n_, unit in re.findall(
                    r'Gap degree\s+(\d+):\s+(\d+) (trees|nodes)', report):
                t[(unit, int(k_))] += int(n_)
            return +t
        # statistics of a concatenation are the sums, in either order
        outs = [run({'k': 'analysis', 'bank': bank, 'task': 'GapDegree'})
                for bank in (A, B, A + B, B + A)]
        try:
            tabs = [table(o) for o in outs]
        except Exception as e:
            ctx.fail('C18:analysis-report-unreadable', case, repr(e))
            return
        for name, got in (('A+B', tabs[2]), ('B+A', tabs[3])):
            if tabs[0] + tabs[1] != got:
                ctx.fail('C18:not-additive:analysis', case,
                         'GapDegree report of %s is not the sum of the '
                         'reports of A and B: %r vs %r + %r'
                         % (name, dict(got), dict(tabs[0]), dict(tabs[1])))
                return
    else:
        system = case['system']
        argv = ['transitions', '{src}', '{dest}', system, '--transform',
                'negra_mark_heads', 'binarize', '--src-format', 'export',
                '--src-opts', 'quiet']
        outs = []
        for tag, bank in (('a', A), ('b', B), ('ab', A + B)):
            outs.append(run({'k': 'cli', 'argv': argv, 'sfmt': 'export',
                             'text': codec.export_encode(bank), 'tag': tag}))
        if any(o[:1] == ['EXCEPTION'] for o in outs):
            ctx.fail('C18:additivity-transitions-fails', case, str(outs)[:300])
            return
        fa, fb, fab = [o[1][''] for o in outs]
        if fa + fb != fab:
            ctx.fail('C18:not-additive:transitions', case, '%r vs %r'
                     % (fab[-200:], (fa + fb)[-200:]))
            return
    ctx.hook('additivity checks')
    ctx.stratum('additive ' + what)
    ctx.case(case, nontrivial=True)


def punct_only_spec(rng):
    """A tree with a constituent that consists of two or more punctuation
    tokens and nothing else."""
    from .oracle_c13 import punct_tree
    spec = None
    for _ in range(60):
        spec = punct_tree(rng)
        if len(gen.tokens_of(spec['root'])) > 40:
            continue
        for c in gen.walk(spec['root']):
            if 'c' in c and c is not spec['root'] and len(c['c']) >= 2 and \
                    all('c' not in k and k['w'] in gen.PUNCT for k in c['c']):
                return spec
    return spec


HYPHEN_BRACKET_WORDS = ['L-(-)-Carnitin', ':-(-:', 'a-)-b', '-(-', 'x-[-y',
                        '-}-', '(-)', '-(-)-', 'D-(+)-Glucose']


def node_id_probe(ctx, rng):
    """The same transformation of the same tree, the process-wide node-id
    counter standing at ten different values: what is produced depends on
    the sentence, not on how many nodes were made before."""
    R = ctx.R
    seqs = [['punctuation_root'], ['punctuation_symetrify'],
            ['punctuation_verylow'], ['root_attach', 'punctuation_root'],
            ['punctuation_root', 'punctuation_verylow'],
            ['punctuation_delete'], ['negra_mark_heads', 'binarize'],
            ['root_attach', 'negra_mark_heads', 'boyd_split', 'raising'],
            ['collapse_unary_chains', 'uncollapse_unary_chains']]
    op = {'k': 'trans', 'names': rng.choice(seqs),
          'spec': punct_only_spec(rng), 'params': {},
          'shuffle': rng.randrange(99)}
    tmp = ctx.path('.ids')
    os.mkdir(tmp)
    outs = []
    for k in range(10):
        for _ in range(k % 4 + (13 if k == 7 else 0)):
            R.trees.Tree({})
        outs.append(norm(c18_ops.execute(R, copy.deepcopy(op), tmp, set())))
        if outs[-1] != outs[0]:
            ctx.fail('C18:output-depends-on-node-ids:' + op_shape(op),
                     {'kind': 'ids', 'op': op},
                     'the same operation on the same tree, run %d: %s | '
                     'run 1: %s' % (k + 1, str(outs[-1])[:300],
                                    str(outs[0])[:300]))
            return
    ctx.hook('node-id offset probes')
    ctx.stratum('punctuation-only constituent under ten node-id offsets')
    ctx.case(['ids', op['names'], op['spec']['root']], nontrivial=True)


def hyphen_bracket_probe(ctx, rng):
    """Words in which a bracket stands between hyphens, written by the
    bracket writers / read with replace_parens under several hash seeds: the
    replacements of the bracket table do not commute on them."""
    spec = small_bank(rng, 1, cont=True)[0]
    toks = gen.tokens_of(spec['root'])
    for t in rng.sample(toks, min(len(toks), rng.choice([1, 2]))):
        t['w'] = rng.choice(HYPHEN_BRACKET_WORDS)
        if t.get('lm') not in (None, '--'):
            t['lm'] = t['w']
    if rng.random() < 0.5:
        op = {'k': 'write', 'fmt': rng.choice(['brackets', 'discobrackets']),
              'spec': spec, 'opts': {}, 'shuffle': rng.randrange(99)}
    else:
        fmt = rng.choice(['export', 'tigerxml'])
        text = codec.export_encode([spec]) if fmt == 'export' \
            else codec.tigerxml_encode([spec])
        op = {'k': 'read', 'fmt': fmt, 'text': text,
              'opts': {'quiet': True, 'replace_parens': True}}
    tmp = ctx.path('.hyph')
    os.mkdir(tmp)
    here = norm(c18_ops.execute(ctx.R, copy.deepcopy(op), tmp, set()))
    for hs in (1, 2, 3, 4, 5):
        out, err = fresh(ctx, op, hs)
        if out is not None and out != here:
            ctx.fail('C18:differs-from-fresh-process:' + op_shape(op),
                     {'kind': 'fresh', 'op': op, 'hashseed': hs,
                      'pool': [op], 'seq': [0]},
                     'in this process: %s | PYTHONHASHSEED=%s fresh: %s'
                     % (str(here)[:300], hs, str(out)[:300]))
            break
    ctx.stratum('bracket between hyphens under hash seeds')


def shard(ctx):
    for i in ctx.indices(ctx.pick(160, 2500)):
        run_session(ctx, i, ctx.rng('session', i))
    for i in ctx.indices(ctx.pick(240, 6000)):
        node_id_probe(ctx, ctx.rng('ids', i))
    for i in ctx.indices(ctx.pick(32, 800)):
        hyphen_bracket_probe(ctx, ctx.rng('hyph', i))
    # slash annotation under several hash seeds (set/dict iteration order)
    for i in ctx.indices(ctx.pick(48, 1500)):
        rng = ctx.rng('slash', i)
        op = {'k': 'trans', 'names': ['ptb_delete_traces'],
              'spec': trace_spec(rng),
              'params': rng.choice([{'keepall': True, 'slash': True},
                                    {'keepall': True, 'slash': True,
                                     'keepcoindex': True}]),
              'shuffle': rng.randrange(99)}
        tmp = ctx.path('.slash')
        os.mkdir(tmp)
        here = norm(c18_ops.execute(ctx.R, copy.deepcopy(op), tmp, set()))
        for hs in (1, 2, 3):
            out, err = fresh(ctx, op, hs)
            if out is not None and out != here:
                ctx.fail('C18:differs-from-fresh-process:' + op_shape(op),
                         {'kind': 'fresh', 'op': op, 'hashseed': hs,
                          'pool': [op], 'seq': [0]},
                         'PYTHONHASHSEED=0 in this process: %s | '
                         'PYTHONHASHSEED=%s fresh: %s'
                         % (str(here)[:300], hs, str(out)[:300]))
                break
        ctx.stratum('slash annotation under hash seeds')
        ctx.case(op, nontrivial=True)
    for i in ctx.indices(ctx.pick(160, 6000)):
        additivity(ctx, ctx.rng('add', i))


def replay(ctx, case):
    R = ctx.R
    tmp = ctx.path('.replay')
    os.mkdir(tmp)
    if case['kind'] == 'session':
        outs = {}
        for pos, pi in enumerate(case['seq']):
            out = norm(c18_ops.execute(R, copy.deepcopy(case['pool'][pi]), tmp,
                                       set()))
            if pi in outs and outs[pi] != out:
                ctx.fail('C18:history-dependent-output:'
                         + op_shape(case['pool'][pi]), case,
                         'position %d: %s vs %s' % (pos, str(out)[:300],
                                                    str(outs[pi])[:300]))
            outs.setdefault(pi, out)
    elif case['kind'] == 'fresh':
        outs = {}
        for pos, pi in enumerate(case['seq']):
            outs[pi] = norm(c18_ops.execute(R, copy.deepcopy(case['pool'][pi]),
                                            tmp, set()))
        out, err = fresh(ctx, case['op'], case['hashseed'])
        idx = [i for i, o in enumerate(case['pool']) if o == case['op']]
        if idx and idx[0] in outs and out != outs[idx[0]]:
            ctx.fail('C18:differs-from-fresh-process:' + op_shape(case['op']),
                     case, '%s vs %s' % (str(outs[idx[0]])[:300],
                                         str(out)[:300]))
    elif case['kind'] == 'ids':
        outs = []
        for k in range(10):
            for _ in range(k % 4 + (13 if k == 7 else 0)):
                R.trees.Tree({})
            outs.append(norm(c18_ops.execute(R, copy.deepcopy(case['op']),
                                             tmp, set())))
            if outs[-1] != outs[0]:
                ctx.fail('C18:output-depends-on-node-ids:'
                         + op_shape(case['op']), case,
                         'run %d: %s | run 1: %s' % (
                             k + 1, str(outs[-1])[:300], str(outs[0])[:300]))
                break
    else:
        additive_case(ctx, case, tmp)

"""Sharded driver, three-valued verdict, evidence writer, known-finding
classifier, replay.   ./vcheck <Cnn> quick|thorough   |   ./vcheck <Cnn> --replay F
"""
import hashlib
import importlib
import json
import os
import random
import shutil
import subprocess
import sys
import tempfile
import time

HERE = os.path.dirname(os.path.dirname(os.path.abspath(__file__)))
EVIDENCE_DIR = os.environ.get('VT_EVIDENCE_DIR') or os.path.join(HERE, 'evidence')
REPLAY_DIR = os.environ.get('VT_REPLAY_DIR') or os.path.join(HERE, 'replays')
KNOWN = os.path.join(HERE, 'known_findings.json')
MAX_WITNESSES = 40


def digest64(obj):
    s = obj if isinstance(obj, str) else json.dumps(obj, sort_keys=True,
                                                    default=repr)
    return int.from_bytes(hashlib.blake2b(s.encode('utf-8', 'surrogatepass'),
                                          digest_size=8).digest(), 'big')


def scratch_base():
    for d in ('/dev/shm', os.environ.get('TMPDIR') or '', '/var/tmp'):
        if d and os.path.isdir(d) and os.access(d, os.W_OK):
            return d
    return tempfile.gettempdir()


class Ctx(object):
    """What an oracle sees: seeded RNGs, counters, the failure log."""

    def __init__(self, prop, tier, seed, shard, nshards, tmp):
        self.prop = prop
        self.tier = tier
        self.seed = seed
        self.shard = shard
        self.nshards = nshards
        self.tmp = tmp
        self.evaluations = 0
        self.digests = set()
        self.strata = {}
        self.hooks = {}
        self.failures = []
        self.fail_counts = {}
        self.samples = []
        self.sets = {}
        self.sums = {}
        self.notes = []
        self.t0 = time.time()
        self.R = None
        self._fileno = 0

    # ---- work distribution ------------------------------------------------
    def rng(self, *key):
        return random.Random('%s:%s:%s' % (self.seed, self.prop,
                                           ':'.join(str(k) for k in key)))

    def mine(self, i):
        return i % self.nshards == self.shard

    def indices(self, total):
        return range(self.shard, total, self.nshards)

    def quick(self):
        return self.tier == 'quick'

    def pick(self, quick, thorough):
        return quick if self.tier == 'quick' else thorough

    # ---- bookkeeping --------------------------------------------------------
    def stratum(self, name, k=1):
        self.strata[name] = self.strata.get(name, 0) + k

    def hook(self, name, k=1):
        self.hooks[name] = self.hooks.get(name, 0) + k

    def case(self, ident, nontrivial=True, evaluations=1):
        """Count one monitored execution; ident identifies the case for the
        distinct count (only when it is non-trivial by the oracle's rule)."""
        self.evaluations += evaluations
        if nontrivial:
            self.digests.add(digest64(ident))

    def sample(self, obj, limit=4):
        if len(self.samples) < limit:
            self.samples.append(obj)

    def add(self, name, item):
        self.sets.setdefault(name, set()).add(item)

    def sum(self, name, k=1):
        self.sums[name] = self.sums.get(name, 0) + k

    def fail(self, mechanism, case, detail):
        """Record a violation witness.  mechanism is a signature of *how* it
        fails (code path / option / shape), never of the random values."""
        self.fail_counts[mechanism] = self.fail_counts.get(mechanism, 0) + 1
        if self.fail_counts[mechanism] <= 3 and \
                len(self.failures) < MAX_WITNESSES:
            self.failures.append({'mechanism': mechanism, 'case': case,
                                  'detail': detail})

    def path(self, suffix=''):
        self._fileno += 1
        odd = ''
        if self._fileno % 7 == 3:
            # file names are not part of the input either: a blank, a dot and
            # a non-ASCII letter in some of them
            odd = ' v.2 \u00e4'
            self.stratum('file name with blank, dot and non-ASCII letter')
        return os.path.join(self.tmp, 'f%d_%d%s%s' % (self.shard, self._fileno,
                                                      odd, suffix))

    def result(self):
        from . import contracts
        hooks = dict(self.hooks)
        for k, v in contracts.COUNTS.items():
            hooks[k] = hooks.get(k, 0) + v
        return {'evaluations': self.evaluations,
                'digests': sorted(self.digests),
                'strata': self.strata, 'hooks': hooks,
                'failures': self.failures, 'fail_counts': self.fail_counts,
                'samples': self.samples,
                'sets': {k: sorted(v, key=repr) for k, v in self.sets.items()},
                'sums': self.sums, 'notes': self.notes,
                'oracle_errors': contracts.ORACLE_ERRORS[:5],
                'backend': contracts.BACKEND,
                'wall_s': time.time() - self.t0}


def load_oracle(prop):
    return importlib.import_module('vt.oracle_%s' % prop.lower())


def worker_main(argv):
    """python -m vt.runner --worker PROP TIER SEED SHARD NSHARDS OUT TMP"""
    prop, tier, seed, shard, nshards, out, tmp = argv
    os.environ.setdefault('TREETOOLS_VERIF', '1')
    from . import repo
    ctx = Ctx(prop, tier, int(seed), int(shard), int(nshards), tmp)
    status = 'ok'
    err = None
    try:
        ctx.R = repo.load()
        oracle = load_oracle(prop)
        oracle.shard(ctx)
        from . import gen
        if gen.LONG[0]:
            ctx.stratum('sentence of 120..220 tokens', gen.LONG[0])
        for k_, v_ in gen.SPICE_USED.items():
            ctx.stratum(k_, v_)
        if gen.ATNODES[0]:
            ctx.stratum('input tree with @-labelled nodes', gen.ATNODES[0])
        if gen.LOOKALIKE[0]:
            ctx.stratum('token that resembles punctuation but is none',
                        gen.LOOKALIKE[0])
        from . import common
        for k_, v_ in common.ENVIRONMENTS.items():
            ctx.stratum('command line run with ' + k_, v_)
    except Exception:
        import traceback
        status = 'crash'
        err = traceback.format_exc()
    res = ctx.result()
    res['status'] = status
    res['error'] = err
    with open(out, 'w') as f:
        json.dump(res, f)
    return 0


def load_known():
    try:
        with open(KNOWN) as f:
            return json.load(f)
    except FileNotFoundError:
        return {'open': [], 'fixed': []}


def merge(results):
    m = {'evaluations': 0, 'digests': set(), 'strata': {}, 'hooks': {},
         'failures': [], 'fail_counts': {}, 'samples': [], 'sets': {},
         'sums': {}, 'notes': [], 'oracle_errors': [], 'backend': None}
    for r in results:
        m['evaluations'] += r['evaluations']
        m['digests'].update(r['digests'])
        for k in ('strata', 'hooks', 'fail_counts', 'sums'):
            for a, b in r[k].items():
                m[k][a] = m[k].get(a, 0) + b
        m['failures'].extend(r['failures'])
        for s in r['samples']:
            if len(m['samples']) < 5:
                m['samples'].append(s)
        for k, v in r['sets'].items():
            m['sets'].setdefault(k, set()).update(
                tuple(x) if isinstance(x, list) else x for x in v)
        m['notes'].extend(r['notes'])
        m['oracle_errors'].extend(r['oracle_errors'])
        m['backend'] = r['backend']
    return m


def run_check(prop, tier, seed):
    t0 = time.time()
    oracle = load_oracle(prop)
    nshards = int(os.environ.get('VT_SHARDS', '0')) or \
        min(16, os.cpu_count() or 4)
    if getattr(oracle, 'MAX_SHARDS', None):
        nshards = min(nshards, oracle.MAX_SHARDS)
    tmp = tempfile.mkdtemp(prefix='vt_%s_' % prop, dir=scratch_base())
    env = dict(os.environ)
    # the hash seed is not part of any input: the shards run under different
    # ones (fixed per shard, so that a shard is reproducible)
    vary_hash = 'PYTHONHASHSEED' not in env
    env.setdefault('PYTHONHASHSEED', '0')
    env['TREETOOLS_VERIF'] = '1'
    env['PYTHONPATH'] = HERE + os.pathsep + env.get('PYTHONPATH', '')
    env['PYTHONDONTWRITEBYTECODE'] = '1'
    # the code under test leaves files in the directory for temporary files
    # (misc.gunzip): keep them inside the scratch area, which is removed
    env['TMPDIR'] = os.path.join(tmp, 'tmpdir')
    os.mkdir(env['TMPDIR'])
    watchdog = float(os.environ.get('VT_WATCHDOG', '0')) or \
        oracle.WATCHDOG[tier]
    procs = []
    for s in range(nshards):
        out = os.path.join(tmp, 'shard%d.json' % s)
        log = open(os.path.join(tmp, 'shard%d.log' % s), 'w')
        p = subprocess.Popen(
            [sys.executable, '-m', 'vt.runner', '--worker', prop, tier,
             str(seed), str(s), str(nshards), out, tmp],
            cwd=HERE, env=dict(env, PYTHONHASHSEED=str(
                (0, 1, 2, 3, 5, 8, 13, 21)[s % 8])) if vary_hash else env,
            stdout=log, stderr=subprocess.STDOUT)
        procs.append((p, out, log))
    results = []
    inconclusive = []
    deadline = time.time() + watchdog
    for s, (p, out, log) in enumerate(procs):
        try:
            p.wait(timeout=max(1.0, deadline - time.time()))
        except subprocess.TimeoutExpired:
            p.kill()
            p.wait()
            inconclusive.append('shard %d hit the wall-clock watchdog (%ds)'
                                % (s, watchdog))
        log.close()
        if os.path.exists(out):
            with open(out) as f:
                r = json.load(f)
            results.append(r)
            if r['status'] != 'ok':
                inconclusive.append('shard %d crashed: %s'
                                    % (s, (r['error'] or '')[-1500:]))
        elif not inconclusive or 'shard %d' % s not in inconclusive[-1]:
            with open(log.name) as f:
                tail = f.read()[-1500:]
            inconclusive.append('shard %d produced no result: %s' % (s, tail))
    m = merge(results)
    if m['oracle_errors']:
        inconclusive.append('monitor raised: %s' % m['oracle_errors'][0][-1500:])
    shutil.rmtree(tmp, ignore_errors=True)

    # ---- thresholds: a run that observed too little decides nothing --------
    distinct = len(m['digests'])
    mins = getattr(oracle, 'MIN', {}).get(tier, {})
    for hook, least in mins.get('hooks', {}).items():
        if m['hooks'].get(hook, 0) < least:
            inconclusive.append('hook %s fired %d times (< %d)'
                                % (hook, m['hooks'].get(hook, 0), least))
    for st, least in mins.get('strata', {}).items():
        if m['strata'].get(st, 0) < least:
            inconclusive.append('stratum %s seen %d times (< %d)'
                                % (st, m['strata'].get(st, 0), least))
    least = getattr(oracle, 'PIPELINE_CASES', {}).get(tier, 0)
    seen = sum(v for k, v in m['strata'].items() if k.startswith('pipeline: '))
    if seen < least:
        inconclusive.append('only %d judged calls inside sequences of other '
                            'transformations (< %d)' % (seen, least))
    least = getattr(oracle, 'LONG_SENTENCES', 0)
    if m['strata'].get('sentence of 120..220 tokens', 0) < least:
        inconclusive.append('only %d sentences of 120..220 tokens (< %d)'
                            % (m['strata'].get('sentence of 120..220 tokens',
                                               0), least))
    if distinct < mins.get('distinct', 2):
        inconclusive.append('only %d distinct non-trivial cases (< %d)'
                            % (distinct, mins.get('distinct', 2)))

    # ---- classify failures --------------------------------------------------
    known = load_known()
    open_mech = {(k['property'], k['mechanism']): k for k in known.get('open', [])}
    violations = []
    known_seen = {}
    for f in m['failures']:
        k = open_mech.get((prop, f['mechanism']))
        if k is not None:
            known_seen.setdefault(f['mechanism'], k)
        else:
            violations.append(f)
    for mech in m['fail_counts']:
        if (prop, mech) in open_mech:
            known_seen.setdefault(mech, open_mech[(prop, mech)])
    lines = []
    for mech, k in sorted(known_seen.items()):
        lines.append('KNOWN-FINDING: property=%s %s [%s; %d occurrences this run]'
                     % (prop, k['what'], mech, m['fail_counts'].get(mech, 0)))
    replay_paths = []
    if violations:
        os.makedirs(os.path.join(REPLAY_DIR, prop), exist_ok=True)
        seen_mech = set()
        for f in violations:
            if f['mechanism'] in seen_mech:
                continue
            seen_mech.add(f['mechanism'])
            body = {'property': prop, 'tier': tier, 'seed': seed,
                    'mechanism': f['mechanism'], 'case': f['case'],
                    'detail': f['detail']}
            name = '%016x.json' % digest64(body)
            path = os.path.join(REPLAY_DIR, prop, name)
            with open(path, 'w') as fh:
                json.dump(body, fh, indent=1, sort_keys=True, default=repr)
            replay_paths.append((f, path))
            if len(replay_paths) >= 12:
                break

    # ---- evidence -----------------------------------------------------------
    unknown_mechs = sorted(k for k in m['fail_counts']
                           if (prop, k) not in open_mech)
    cov = {'evaluations': m['evaluations'],
           'distinct_nontrivial': distinct,
           'rule': oracle.RULE,
           'samples': m['samples'] or [],
           'strata': dict(sorted(m['strata'].items())),
           'hooks': dict(sorted(m['hooks'].items())),
           'backend': m['backend'],
           'shards': nshards,
           'known_findings_seen': sorted(known_seen),
           'violation_mechanisms': {k: m['fail_counts'][k]
                                    for k in unknown_mechs},
           'inconclusive': inconclusive}
    for k, v in m['sets'].items():
        v = sorted(v, key=repr)
        cov[k] = v if len(v) <= 400 else {'count': len(v), 'first': v[:50]}
    for k, v in m['sums'].items():
        cov[k] = v
    if m['notes']:
        cov['notes'] = sorted(set(m['notes']))[:40]
    if getattr(oracle, 'evidence_extra', None):
        cov.update(oracle.evidence_extra(tier, m))
    ev = {'property_id': prop, 'tier': tier, 'seed': seed,
          'level': getattr(oracle, 'LEVEL', 'exploration'),
          'coverage': cov,
          'assumptions': getattr(oracle, 'ASSUMPTIONS', []),
          'wall_s': round(time.time() - t0, 2),
          'violations': sum(m['fail_counts'][k] for k in unknown_mechs)}
    os.makedirs(EVIDENCE_DIR, exist_ok=True)
    with open(os.path.join(EVIDENCE_DIR, '%s.json' % prop), 'w') as f:
        json.dump(ev, f, indent=1, sort_keys=True, default=repr)
        f.write('\n')

    # ---- verdict ------------------------------------------------------------
    for ln in lines:
        print(ln)
    print('%s %s seed=%d: %d executions, %d distinct non-trivial, %d shards, '
          '%.1fs, backend %s' % (prop, tier, seed, m['evaluations'], distinct,
                                 nshards, time.time() - t0, m['backend']))
    hk = ', '.join('%s=%d' % kv for kv in sorted(m['hooks'].items()))
    if hk:
        print('hooks: ' + hk)
    if violations:
        for f, path in replay_paths:
            print('VIOLATION property=%s replay=%s' % (prop, path))
            print('  mechanism: %s' % f['mechanism'])
            print('  detail: %s' % str(f['detail'])[:600])
        for mech in unknown_mechs:
            print('  %s: %d occurrences' % (mech, m['fail_counts'][mech]))
        return 1
    if inconclusive:
        for r in inconclusive:
            print('INCONCLUSIVE property=%s reason=%s' % (prop, r))
        return 2
    print('HELD property=%s on everything explored' % prop)
    return 0


def run_replay(prop, path):
    os.environ.setdefault('TREETOOLS_VERIF', '1')
    from . import repo
    with open(path) as f:
        body = json.load(f)
    tmp = tempfile.mkdtemp(prefix='vt_replay_', dir=scratch_base())
    try:
        ctx = Ctx(prop, body.get('tier', 'quick'), body.get('seed', 0), 0, 1,
                  tmp)
        ctx.R = repo.load()
        oracle = load_oracle(prop)
        oracle.replay(ctx, body['case'])
    finally:
        shutil.rmtree(tmp, ignore_errors=True)
    known = load_known()
    open_mech = set((k['property'], k['mechanism'])
                    for k in known.get('open', []))
    rc = 0
    for f in ctx.failures:
        if (prop, f['mechanism']) in open_mech:
            print('KNOWN-FINDING: property=%s %s' % (prop, f['mechanism']))
            continue
        print('VIOLATION property=%s replay=%s' % (prop, path))
        print('  mechanism: %s' % f['mechanism'])
        print('  detail: %s' % str(f['detail'])[:2000])
        rc = 1
    if rc == 0:
        print('replay of %s: property held' % path)
    return rc


def main(argv=None):
    argv = list(sys.argv[1:] if argv is None else argv)
    if argv and argv[0] == '--worker':
        return worker_main(argv[1:])
    if len(argv) >= 3 and argv[1] == '--replay':
        return run_replay(argv[0], argv[2])
    if len(argv) < 1:
        print('usage: vcheck Cnn [quick|thorough] | vcheck Cnn --replay FILE')
        return 64
    prop = argv[0]
    tier = argv[1] if len(argv) > 1 else os.environ.get('VERIF_TIER', 'quick')
    seed = int(os.environ.get('VERIF_SEED', '0') or 0)
    return run_check(prop, tier, seed)


if __name__ == '__main__':
    sys.exit(main())

"""C13 -- punctuation re-attachment puts punctuation where documented and moves
nothing else (DESIGN 5/C13).  Contracts with OLD snapshots (parent of every
node) on the real punctuation_verylow / punctuation_root /
punctuation_symetrify."""
from . import common, contracts, gen, model

PROPERTY = 'C13'
LEVEL = 'exploration'
RULE = ('trees built through the Tree API (shuffled child lists, 1..30 '
        'tokens, discontinuous or not) with punctuation density 0..100 %, '
        'consecutive punctuation, punctuation-only constituents, unary nodes '
        'over punctuation, punctuation hung under the root or left inside '
        'phrases, with and without a preceding root_attach; parameter relc; '
        'plus a sweep of all shapes up to 4 tokens x all punctuation '
        'placements; non-trivial = at least one token changes its parent; '
        'distinct = distinct (canonical tree with words, transformation, relc)')
ASSUMPTIONS = ['the punctuation inventories are the documented ones, written '
               'out in vt/gen.py (not read from the repository)',
               'state predicates are evaluated on the result; "sits in a '
               'constituent consisting only of punctuation" / "only child of '
               'its parent" refer to the constituent the token is in '
               'afterwards']
WATCHDOG = {'quick': 600, 'thorough': 3600}
LONG_SENTENCES = 3      # floor for the stratum the runner adds (gen.maybe_long)
PIPELINE_CASES = {'quick': 500, 'thorough': 20000}   # vt/pipeline.py
MIN = {'quick': {'distinct': 1500,
                 'hooks': {'transform.punctuation_verylow': 2000,
                           'transform.punctuation_root': 2000,
                           'transform.punctuation_symetrify': 2000},
                 'strata': {'second re-attachment on the same tree': 1000,
                            'punctuation-only constituent': 300,
                            'unary node over punctuation': 300,
                            'consecutive punctuation': 500,
                            'symetrify moved': 100, 'relc': 300}},
       'thorough': {'distinct': 80000,
                    'hooks': {'transform.punctuation_symetrify': 80000}}}

PUNCT = set(gen.PUNCT)
PAIR = set(gen.PAIRPUNCT)


class Cur(object):
    ctx = None
    case = None


def _fail(mech, detail):
    Cur.ctx.fail('C13:' + mech, Cur.case, detail)


def pre(args, kw):
    return model.snapshot(args[0])


def frame(name, before, result, exc, args, allowed):
    """Common part: returns the root, result well formed, only allowed tokens
    changed parent, nothing else changed.  Returns (after, moved) or None."""
    if exc is not None:
        _fail(name + '-raises', '%r on %s' % (exc, model.show(before, 'w')))
        return None
    if result is not args[0]:
        _fail(name + '-returns-other-node', '')
        return None
    defects, after = model.snapshot(result)
    if defects:
        _fail(name + '-ill-formed', '; '.join(defects[:3]) + ' | input '
              + model.show(before, 'w'))
        return None
    pb, pa = model.parent_map(before), model.parent_map(after)
    if set(pb) != set(pa):
        lost = [n for n in before.nodes() if id(n.ref) not in pa]
        _fail(name + '-node-set-changed', 'nodes lost: %r | input %s | output '
              '%s' % ([n.label for n in lost][:4], model.show(before, 'w'),
                      model.show(after, 'w')))
        return None
    if model.token_seq(after, 'wplme') != model.token_seq(before, 'wplme'):
        _fail(name + '-tokens-changed', 'token fields or order changed')
        return None
    byid = {id(n.ref): n for n in after.nodes()}
    moved = [byid[k] for k in pb if pb[k] != pa[k]]
    for n in moved:
        if n.children or n.word not in allowed:
            _fail(name + '-moves-other-node', '%s %r changed its parent | '
                  'input %s | output %s'
                  % ('constituent' if n.children else 'token',
                     n.label if n.children else n.word,
                     model.show(before, 'w'), model.show(after, 'w')))
            return None
    for n in after.nodes():
        if n.children and (n.label, n.edge) != \
                (n.ref.data.get('label'), n.ref.data.get('edge')):
            pass
    lb = sorted((n.label, n.edge) for n in before.nodes() if n.children)
    la = sorted((n.label, n.edge) for n in after.nodes() if n.children)
    if lb != la:
        _fail(name + '-labels-changed', 'constituent labels/edges changed')
        return None
    return after, moved


def strata(before):
    c = Cur.ctx
    toks = before.toks()
    for n in before.nodes():
        if n.children and all((not k.children) and k.word in PUNCT
                              for k in n.children):
            c.stratum('punctuation-only constituent')
            if len(n.children) == 1:
                c.stratum('unary node over punctuation')
            break
    if any(a.word in PUNCT and b.word in PUNCT for a, b in zip(toks, toks[1:])):
        c.stratum('consecutive punctuation')
    if toks and all(t.word in PUNCT for t in toks):
        c.stratum('punctuation-only sentence')


def post_verylow(old, result, exc, args, kw):
    if old is None or old[0]:
        return
    before = old[1]
    r = frame('verylow', before, result, exc, args, PUNCT)
    if r is None:
        return
    after, moved = r
    toks = after.toks()
    for i, t in enumerate(toks):
        if i == 0 or t.word not in PUNCT:
            continue
        left = toks[i - 1]
        if t.parent is left.parent:
            continue
        if all((not k.children) and k.word in PUNCT for k in t.parent.children):
            continue
        _fail('verylow-not-sister-of-left-neighbour', 'token %d %r is below '
              '%s, its left neighbour below %s | input %s | output %s'
              % (t.num, t.word, t.parent.label, left.parent.label,
                 model.show(before, 'w'), model.show(after, 'w')))
        return
    strata(before)
    Cur.ctx.case(['verylow', model.canon(before, 'wp')], nontrivial=bool(moved))


def post_root(old, result, exc, args, kw):
    if old is None or old[0]:
        return
    before = old[1]
    r = frame('root', before, result, exc, args, PUNCT)
    if r is None:
        return
    after, moved = r
    for t in after.toks():
        if t.word not in PUNCT or t.parent is after:
            continue
        if len(t.parent.children) == 1:
            continue
        _fail('root-punctuation-not-at-root', 'token %d %r is below %s which '
              'has %d children | input %s | output %s'
              % (t.num, t.word, t.parent.label, len(t.parent.children),
                 model.show(before, 'w'), model.show(after, 'w')))
        return
    for n in moved:
        if n.parent is not after:
            _fail('root-moved-elsewhere', 'token %r moved below %s'
                  % (n.word, n.parent.label))
            return
    strata(before)
    Cur.ctx.case(['root', model.canon(before, 'wp')], nontrivial=bool(moved))


def post_sym(old, result, exc, args, kw):
    if old is None or old[0]:
        return
    before = old[1]
    relc = kw.get('relc')
    r = frame('symetrify', before, result, exc, args, PAIR)
    if r is None:
        return
    after, moved = r
    toks = after.toks()
    for n in moved:
        ok = False
        for k in n.parent.children:
            if k is n or k.children:
                continue
            if k.word in PAIR:
                ok = True
            if relc is not None and k.num < len(toks) and \
                    toks[k.num].label == relc:
                ok = True
        if not ok:
            _fail('symetrify-target-without-partner', 'token %d %r moved '
                  'below %s which contains no other paired punctuation%s | '
                  'input %s | output %s'
                  % (n.num, n.word, n.parent.label,
                     ' / pre-relative token' if relc else '',
                     model.show(before, 'w'), model.show(after, 'w')))
            return
    strata(before)
    if moved:
        Cur.ctx.stratum('symetrify moved')
    if relc:
        Cur.ctx.stratum('relc')
    Cur.ctx.case(['sym', relc, model.canon(before, 'wp')],
                 nontrivial=bool(moved))


def install(R):
    tr = R.transform
    contracts.attach(tr, 'punctuation_verylow', pre, post_verylow)
    contracts.attach(tr, 'punctuation_root', pre, post_root)
    contracts.attach(tr, 'punctuation_symetrify', pre, post_sym)


def run_case(ctx, case, rng):
    Cur.ctx, Cur.case = ctx, case
    tr = ctx.R.transform
    live = common.live_tree(ctx, case['spec'], rng)
    try:
        with common.captured():
            if case.get('root_attach'):
                live = tr.root_attach(live)
            live = getattr(tr, case['trans'])(live, **case.get('params', {}))
            if case.get('then'):
                getattr(tr, case['then'])(live)
                ctx.stratum('second re-attachment on the same tree')
    except Exception:
        pass


def punct_tree(rng):
    dens = rng.choice([0.0, 0.1, 0.25, 0.5, 0.8, 1.0])
    pair_heavy = rng.random() < 0.5
    punct = (gen.PAIRPUNCT * 3 + gen.COMMA) if pair_heavy else gen.PUNCT
    pools = gen.Pools(p_punct=dens, punct=punct,
                      pos=gen.POS + ['PRELS', 'PRELS', 'PRELSAT', 'PRELSAT',
                                     'PR', 'ELS', 'AT', 'prels'])
    n = rng.choice([2, 3, 4, 5, 6, 8, 12]) if rng.random() < 0.7 \
        else rng.randint(1, 30)
    n = gen.maybe_long(rng, n, 0.003)
    spec = gen.tree(rng, n, pools, max_arity=rng.choice([2, 3, 4, 6]),
                    p_unary=rng.choice([0, 0.15, 0.35]),
                    moves=rng.choice([0, 0, 0, 1, 2]),
                    root_pieces=rng.choice([1, 1, 2, 3]))
    gen.spice(rng, spec, ['cat-keyword', 'word-typographic-punct',
                          'word-keyword', 'word-unicode', 'pos-punct-char',
                          'pos-apostrophe'],
              root_labels=['TOP', 'ROOT', 'S'])
    if rng.random() < 0.2:
        # a relative clause as the relc option sees it: a constituent whose
        # first token is a comma and whose second token is the relative
        # pronoun, followed by a plain or a paired punctuation token
        toks = sorted(gen.tokens_of(spec['root']), key=lambda t: t['n'])
        cands = []
        for c in gen.walk(spec['root']):
            if 'c' in c and c is not spec['root']:
                ys = sorted(t['n'] for t in gen.tokens_of(c))
                if len(ys) >= 2 and ys == list(range(ys[0], ys[-1] + 1)) \
                        and ys[-1] < len(toks):
                    cands.append(ys)
        if cands:
            ys = rng.choice(cands)
            toks[ys[0] - 1]['w'] = ','
            toks[ys[0]]['p'] = rng.choice(['PRELS', 'PRELSAT'])
            toks[ys[-1]]['w'] = rng.choice([',', ',', '.', '"', ')'])
    if rng.random() < 0.5:
        # NeGra style: punctuation hangs under the root
        root = spec['root']

        def lift(node, is_root):
            if 'c' not in node:
                return
            for c in list(node['c']):
                lift(c, False)
            if is_root:
                return
            for c in list(node['c']):
                if 'c' not in c and c['w'] in PUNCT and len(node['c']) > 1 \
                        and rng.random() < 0.8:
                    node['c'].remove(c)
                    root['c'].append(c)
        lift(root, True)
    return spec


def shard(ctx):
    install(ctx.R)
    # ---- sweep: all shapes up to 4 tokens x all punctuation placements ---------
    k = 0
    marks = [',', '"', '(', ')']
    for n in range(1, ctx.pick(4, 5) + 1):
        for shape, used in gen.all_shapes(list(range(1, n + 1)), 1):
            for mask in range(1 << n):
                k += 1
                if not ctx.mine(k):
                    continue
                rng = ctx.rng('sweep', k)
                spec = gen.shape_to_spec(shape, rng, gen.Pools())
                for t in gen.tokens_of(spec['root']):
                    if mask >> (t['n'] - 1) & 1:
                        t['w'] = rng.choice(marks)
                for trans in ('punctuation_verylow', 'punctuation_root',
                              'punctuation_symetrify'):
                    run_case(ctx, {'kind': 'p', 'spec': spec, 'trans': trans,
                                   'params': {}, 'root_attach': False}, rng)
                ctx.stratum('sweep')
    for i in ctx.indices(ctx.pick(6000, 2000000)):
        rng = ctx.rng('rand', i)
        spec = punct_tree(rng)
        trans = rng.choice(['punctuation_verylow', 'punctuation_root',
                            'punctuation_symetrify', 'punctuation_symetrify'])
        params = {}
        if trans == 'punctuation_symetrify' and rng.random() < 0.4:
            # the designated tag is compared as a whole: PRELS is a part of
            # PRELSAT, PR / ELS / AT are parts of both
            params['relc'] = rng.choice(['PRELS', 'PRELS', 'PRELSAT'])
        case = {'kind': 'p', 'spec': spec, 'trans': trans, 'params': params,
                'root_attach': rng.random() < 0.4,
                'then': rng.choice([None, None, 'punctuation_verylow',
                                    'punctuation_root',
                                    'punctuation_symetrify'])}
        run_case(ctx, case, rng)
        if i < 3:
            ctx.sample({'trans': trans, 'params': params,
                        'tree': model.show(model.from_spec(spec['root']), 'w')})
    # ---- inside sequences of other transformations (vt/pipeline.py) ----
    from . import pipeline
    pipeline.run(ctx, Cur, ('punctuation_verylow', 'punctuation_root', 'punctuation_symetrify'), 2000, 80000)



def replay(ctx, case):
    if case.get('kind') == 'pipeline':
        install(ctx.R)
        from . import pipeline
        pipeline.run_case(ctx, Cur, case, ctx.rng('replay'))
        return
    install(ctx.R)
    run_case(ctx, case, ctx.rng('replay'))

"""Independent LCFRS machinery for C06-C09: reference rule extraction from a
model tree, symbolic yield evaluation of linearizations, composition of rule
chains, canonical forms, rule enumeration."""
from collections import Counter

from . import model


def ref_rule(node):
    """(func, lin, vert) of a constituent of a model tree, from the
    set-based definitions only."""
    kids = node.kids()
    func = (node.label,) + tuple(k.label for k in kids)
    owner = {}
    kid_blocks = []
    for i, k in enumerate(kids):
        bl = model.runs(k.nums())
        kid_blocks.append(bl)
        for j, b in enumerate(bl):
            for t in b:
                owner[t] = (i, j)
    lin = []
    for block in model.runs(node.nums()):
        arg = []
        for t in block:
            if not arg or arg[-1] != owner[t]:
                arg.append(owner[t])
        lin.append(tuple(arg))
    vert = tuple('%s%d' % (a.label, model.gapdeg_node(a) + 1)
                 for a in node.ancestors())
    return func, tuple(lin), vert


def ref_extract(root):
    """Counter of (func, lin, vert) and Counter of (word, pos)."""
    rules = Counter()
    lex = Counter()
    for n in root.nodes():
        if n.children:
            rules[ref_rule(n)] += 1
        else:
            lex[(n.word, n.label)] += 1
    return rules, lex


def flatten(grammar):
    """{func: {lin: {vert: count}}} -> Counter{(func, lin, vert): count}"""
    out = Counter()
    for func, lins in grammar.items():
        for lin, verts in lins.items():
            for vert, c in verts.items():
                out[(func, lin, vert)] += c
    return out


def flatten_lex(lexicon):
    out = Counter()
    for word, tags in lexicon.items():
        for tag, c in tags.items():
            out[(word, tag)] += c
    return out


def rule_counts(grammar):
    """Counter{(func, lin): summed count}"""
    out = Counter()
    for func, lins in grammar.items():
        for lin, verts in lins.items():
            out[(func, lin)] += sum(verts.values())
    return out


def apply_lin(lin, kid_blocks):
    """Instantiate a linearization with the children's block lists.  Returns
    (blocks, problems): every block of every child must be used exactly once
    and in order."""
    used = Counter()
    problems = []
    out = []
    nxt = [0] * len(kid_blocks)
    for arg in lin:
        cur = []
        for (i, j) in arg:
            if i >= len(kid_blocks) or j >= len(kid_blocks[i]):
                problems.append('reference to block %d of child %d which has '
                                '%d blocks' % (j, i, len(kid_blocks[i])
                                               if i < len(kid_blocks) else -1))
                continue
            if j != nxt[i]:
                problems.append('blocks of child %d not used in order' % i)
            nxt[i] = j + 1
            used[(i, j)] += 1
            cur.extend(kid_blocks[i][j])
        out.append(cur)
    for i, bl in enumerate(kid_blocks):
        for j in range(len(bl)):
            if used[(i, j)] != 1:
                problems.append('block %d of child %d used %d times'
                                % (j, i, used[(i, j)]))
    return out, problems


def fanouts(lin, rank):
    """[lhs fan-out, fan-out of rhs 1, ...] from the linearization alone."""
    c = Counter(i for arg in lin for (i, _) in arg)
    return [len(lin)] + [c.get(i, 0) for i in range(rank)]


# ---- symbolic evaluation ------------------------------------------------------

class EvalError(Exception):
    pass


def evaluate(lin, rhs_values):
    """rhs_values[i] = tuple of component strings (each a tuple of atoms).
    Every component of every rhs element must be used exactly once."""
    used = Counter()
    out = []
    for arg in lin:
        comp = ()
        for (i, j) in arg:
            if i >= len(rhs_values) or j >= len(rhs_values[i]):
                raise EvalError('component %d of rhs %d does not exist'
                                % (j, i))
            used[(i, j)] += 1
            comp += rhs_values[i][j]
        out.append(comp)
    for i, v in enumerate(rhs_values):
        for j in range(len(v)):
            if used[(i, j)] != 1:
                raise EvalError('component %d of rhs %d used %d times'
                                % (j, i, used[(i, j)]))
    return tuple(out)


def atoms(i, f):
    return tuple(((i, j),) for j in range(f))


def yield_of_rule(lin, rank):
    fo = fanouts(lin, rank)
    return evaluate(lin, [atoms(i, fo[i + 1]) for i in range(rank)])


def canonical(func, lin):
    """Renumber rhs elements by first occurrence in lin."""
    order = []
    for arg in lin:
        for (i, _) in arg:
            if i not in order:
                order.append(i)
    ren = {old: new for new, old in enumerate(order)}
    nfunc = (func[0],) + tuple(func[1 + o] for o in order)
    nlin = tuple(tuple((ren[i], j) for (i, j) in arg) for arg in lin)
    return nfunc, nlin


def well_formed_lin(lin, rank):
    """ordered, non-deleting, each (i,j) once, j contiguous from 0, no two
    adjacent variables of the same element in one argument."""
    seen = {}
    for arg in lin:
        if not arg:
            return 'empty argument'
        prev = None
        for (i, j) in arg:
            if not (0 <= i < rank):
                return 'rhs index %d out of range' % i
            if seen.get(i, 0) != j:
                return 'variables of rhs %d not in order' % i
            seen[i] = j + 1
            if prev == i:
                return 'adjacent variables of rhs %d' % i
            prev = i
    if sorted(seen) != list(range(rank)):
        return 'some rhs element has no variable'
    return None


# ---- enumeration of canonical rules -------------------------------------------

def enum_lins(rank, max_vars):
    """All canonical ordered linearizations: the sequence of variables read
    left to right over all arguments introduces rhs elements in order 0,1,..;
    variables of each element in order; no two adjacent variables of one
    element within an argument."""
    out = []

    def rec(seq, cuts, nxt, introduced):
        # seq: list of rhs indices in reading order; cuts: set of positions
        # where a new argument starts (besides 0)
        n = len(seq)
        if introduced == rank and n >= rank:
            # materialize
            lin = []
            cnt = Counter()
            arg = []
            for p, i in enumerate(seq):
                if p in cuts and arg:
                    lin.append(tuple(arg))
                    arg = []
                arg.append((i, cnt[i]))
                cnt[i] += 1
            lin.append(tuple(arg))
            out.append(tuple(lin))
        if n == max_vars:
            return
        for i in range(min(introduced + 1, rank)):
            newintro = max(introduced, i + 1)
            if n == 0:
                rec(seq + [i], cuts, nxt, newintro)
                continue
            # same argument
            if seq[-1] != i:
                rec(seq + [i], cuts, nxt, newintro)
            # new argument
            rec(seq + [i], cuts | {n}, nxt, newintro)

    rec([], frozenset(), 0, 0)
    return out


def treebank_rule_stats(bank_specs):
    nodes = Counter()
    roots = Counter()
    lex = Counter()
    tags = Counter()
    for spec in bank_specs:
        m = model.from_spec(spec['root'])
        roots[m.label] += 1
        for n in m.nodes():
            if n.children:
                nodes[n.label] += 1
            else:
                lex[(n.word, n.label)] += 1
                tags[n.label] += 1
    return nodes, roots, lex, tags

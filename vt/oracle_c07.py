"""C07 -- grammar binarization preserves every rule's yield function
(DESIGN 5/C07).  Contracts on the real grammar.binarize_rule (with a spy on
the label generators), grammar.reordering_optimal and grammar.binarize; the
oracle is a symbolic yield evaluation of rule chains (vt/lcfrs.py)."""
from collections import Counter

from . import common, contracts, gen, lcfrs, model

PROPERTY = 'C07'
LEVEL = 'exploration'
RULE = ('complete sweep of canonical ordered non-deleting LCFRS rules '
        '(rank <= 4, <= 6 variables quick / <= 7 thorough; rank 5 sampled) '
        'packed into grammars, plus grammars extracted from random treebanks '
        '(rank <= 8, gap degree to n/2); each grammar is binarized '
        'deterministically and Markovized (v,h in 0..3, +-nofanout) with both '
        'reorderings; non-trivial = rule of rank >= 3 whose linearization has '
        'fan-out >= 2 somewhere; distinct = distinct (rule, mode)')
ASSUMPTIONS = ['vt/lcfrs.py evaluate(): symbolic yield evaluation',
               'grammars of the second workload come from the real '
               'grammar.extract, which C06 monitors separately',
               'binarization symbols are recognised by their form @...X; original '
               'categories of that form are excluded from the workloads']
WATCHDOG = {'quick': 900, 'thorough': 5400}
MIN = {'quick': {'distinct': 5000,
                 'hooks': {'grammar.binarize_rule': 20000,
                           'grammar.binarize': 500,
                           'grammar.reordering_optimal': 5000,
                           'chain composed': 10000,
                           'unbinarized': 200},
                 'strata': {'rank>=4': 2000, 'markov': 5000}},
       'thorough': {'distinct': 200000,
                    'hooks': {'chain composed': 300000}}}


class Cur(object):
    ctx = None
    case = None
    labels = []          # labels generated (spy), in order
    records = []         # (func, lin, labels) per binarize_rule call
    mode = None


def _fail(mech, detail):
    Cur.ctx.fail('C07:' + mech, Cur.case, detail)


def is_bin(label):
    return isinstance(label, str) and label.startswith('@') \
        and label.endswith('X')


# ---- spies and contracts ----------------------------------------------------------

def post_next(old, result, exc, args, kw):
    if exc is None:
        Cur.labels.append(result)


def pre_rule(args, kw):
    return len(Cur.labels)


def post_rule(old, result, exc, args, kw):
    func, lin = args[0], args[1]
    res = args[5] if len(args) > 5 else kw.get('result')
    if exc is not None:
        _fail('binarize_rule-raises', '%r on %r %r' % (exc, func, lin))
        return
    labels = list(Cur.labels[old:])
    Cur.records.append((func, lin, labels))
    verify_chain(res, func, lin, labels, 'at binarize_rule exit')


def verify_chain(res, func, lin, labels, when):
    n = len(func) - 1
    bad = lcfrs.well_formed_lin(lin, n)
    if bad:
        return      # not a well-formed rule: outside the property
    if n <= 2:
        if func not in res or lin not in res[func]:
            _fail('low-rank-rule-not-kept', '%s: %r %r not present unchanged'
                  % (when, func, lin))
        return
    if len(labels) != n - 2:
        _fail('label-count', '%s: rank %d rule got %d labels'
              % (when, n, len(labels)))
        return
    fo = lcfrs.fanouts(lin, n)
    target = lcfrs.yield_of_rule(lin, n)
    funcs = [(func[0], func[1], labels[0])]
    for i in range(2, n - 1):
        funcs.append((labels[i - 2], func[i], labels[i - 1]))
    funcs.append((labels[-1], func[n - 1], func[n]))
    for f in funcs:
        if f not in res:
            _fail('chain-rule-missing', '%s: %r not in result (rule %r %r)'
                  % (when, f, func, lin))
            return
    # bottom-up search over the linearizations stored under each chain rule
    vals = set()
    for l2 in res[funcs[-1]]:
        try:
            vals.add(lcfrs.evaluate(l2, [lcfrs.atoms(n - 2, fo[n - 1]),
                                         lcfrs.atoms(n - 1, fo[n])]))
        except lcfrs.EvalError:
            pass
    for k in range(n - 2, 1, -1):      # chain rule index k (1-based), rhs B_k
        nxt = set()
        for l2 in res[funcs[k - 1]]:
            for v in vals:
                try:
                    nxt.add(lcfrs.evaluate(l2, [lcfrs.atoms(k - 1, fo[k]), v]))
                except lcfrs.EvalError:
                    pass
        vals = nxt
    ok = False
    for l2 in res[funcs[0]]:
        for v in vals:
            try:
                if lcfrs.evaluate(l2, [lcfrs.atoms(0, fo[1]), v]) == target:
                    ok = True
            except lcfrs.EvalError:
                pass
    Cur.ctx.hook('chain composed')
    if not ok:
        _fail('chain-does-not-compose', '%s: rule %r %r, labels %r: no chain '
              'of stored linearizations composes to the original yield; '
              'stored: %r' % (when, func, lin, labels,
                              [(f, list(res[f])) for f in funcs]))


def post_reorder(old, result, exc, args, kw):
    func, lin = args[0], args[1]
    if exc is not None:
        _fail('reordering-raises', '%r on %r %r' % (exc, func, lin))
        return
    if lcfrs.well_formed_lin(lin, len(func) - 1):
        return
    nfunc, nlin = result
    if lcfrs.well_formed_lin(nlin, len(nfunc) - 1):
        _fail('reordering-ill-formed', '%r %r -> %r %r' % (func, lin, nfunc,
                                                           nlin))
        return
    if lcfrs.canonical(func, lin) != lcfrs.canonical(nfunc, nlin):
        _fail('reordering-not-a-renaming', '%r %r -> %r %r'
              % (func, lin, nfunc, nlin))


def pre_binarize(args, kw):
    Cur.records = []
    Cur.labels = []
    return lcfrs.flatten(args[0])


def post_binarize(old, result, exc, args, kw):
    if exc is not None:
        _fail('binarize-raises', '%r (mode %r)' % (exc, Cur.mode))
        return
    grammar = args[0]
    if lcfrs.flatten(grammar) != old:
        _fail('binarize-mutates-input', 'input grammar changed')
    for f in result:
        if len(f) - 1 > 2:
            _fail('result-rank>2', 'rule %r in binarized grammar' % (f,))
            return
    # every original rule was handed to binarize_rule (up to reordering)
    orig = set(lcfrs.canonical(f, l) for (f, l, v) in old
               if lcfrs.well_formed_lin(l, len(f) - 1) is None)
    seen = set(lcfrs.canonical(f, l) for (f, l, labs) in Cur.records)
    for k in orig:
        if k not in seen:
            _fail('rule-not-binarized', 'rule %r never reached binarize_rule'
                  % (k,))
            return
    # the *returned* grammar contains the chains
    for (f, l, labs) in Cur.records:
        verify_chain(result, f, l, labs, 'in returned grammar')
    if kw.get('reordering') is None or \
            getattr(kw.get('reordering'), '__name__', '') == 'reordering_none':
        for (f, l, v) in old:
            if len(f) - 1 <= 2 and (f not in result or l not in result[f]):
                _fail('low-rank-rule-not-kept', 'rule %r %r missing from '
                      'the left-to-right binarization' % (f, l))
                return
    if not kw.get('markov_opts'):
        unbinarize_check(result, Cur.records)


def unbinarize_check(result, records):
    """Deterministic mode: bin symbols unique, one fan-out each; inlining them
    gives back exactly the (re-ordered) input rules."""
    defs = {}
    for f in result:
        if is_bin(f[0]):
            if f[0] in defs or len(result[f]) != 1:
                _fail('bin-label-not-unique', '%r defined more than once'
                      % (f[0],))
                return
            defs[f[0]] = (f, list(result[f])[0])
    usefo = {}
    for f in result:
        for l in result[f]:
            fo = lcfrs.fanouts(l, len(f) - 1)
            for i, sym in enumerate(f[1:]):
                if is_bin(sym):
                    usefo.setdefault(sym, set()).add(fo[i + 1])
            if is_bin(f[0]):
                usefo.setdefault(f[0], set()).add(fo[0])
    for sym, s in usefo.items():
        if len(s) != 1:
            _fail('bin-label-two-fanouts', '%r used with fan-outs %r'
                  % (sym, sorted(s)))
            return

    def expand(f, l, start):
        """-> (rhs labels, value with atoms numbered from start)"""
        fo = lcfrs.fanouts(l, len(f) - 1)
        rhs = []
        vals = []
        pos = start
        for i, sym in enumerate(f[1:]):
            if is_bin(sym):
                if sym not in defs:
                    raise lcfrs.EvalError('undefined %r' % sym)
                r2, v2 = expand(defs[sym][0], defs[sym][1], pos)
                rhs.extend(r2)
                vals.append(v2)
                pos += len(r2)
            else:
                rhs.append(sym)
                vals.append(lcfrs.atoms(pos, fo[i + 1]))
                pos += 1
        return rhs, lcfrs.evaluate(l, vals)

    got = set()
    for f in result:
        if is_bin(f[0]):
            continue
        for l in result[f]:
            try:
                rhs, val = expand(f, l, 0)
            except lcfrs.EvalError as e:
                _fail('unbinarize-fails', 'rule %r %r: %s' % (f, l, e))
                return
            got.add(((f[0],) + tuple(rhs), val))
    exp = set((f, l) for (f, l, labs) in records
              if lcfrs.well_formed_lin(l, len(f) - 1) is None)
    Cur.ctx.hook('unbinarized')
    if got != exp:
        _fail('unbinarize-differs', 'inlining the binarization symbols gives '
              '%r extra and misses %r' % (sorted(got - exp, key=repr)[:2],
                                          sorted(exp - got, key=repr)[:2]))


def install(R):
    G = R.grammar
    contracts.attach(G.LabelGenerator, 'next', None, post_next,
                     key='LabelGenerator.next')
    contracts.attach(G.MarkovLabelGenerator, 'next', None, post_next,
                     key='MarkovLabelGenerator.next')
    contracts.attach(G, 'binarize_rule', pre_rule, post_rule)
    contracts.attach(G, 'reordering_optimal', None, post_reorder)
    contracts.attach(G, 'binarize', pre_binarize, post_binarize)


# ---- workload -------------------------------------------------------------------

def all_modes():
    modes = [None]
    for v in range(4):
        for h in range(4):
            modes.append({'v': v, 'h': h})
            modes.append({'v': v, 'h': h, 'nofanout': True})
    return modes


def run_grammar(ctx, grammar, modes, case):
    R = ctx.R
    G = R.grammar
    Cur.ctx, Cur.case = ctx, case
    for mode in modes:
        for reo in ('none', 'optimal'):
            Cur.mode = (mode, reo)
            case['mode'] = [mode, reo]
            fn = G.reordering_none if reo == 'none' else G.reordering_optimal
            try:
                with common.captured():
                    G.binarize(grammar, reordering=fn,
                               markov_opts=dict(mode) if mode else None)
            except Exception:
                pass
            ctx.stratum('markov' if mode else 'deterministic')
            for f in grammar:
                for l in grammar[f]:
                    n = len(f) - 1
                    ctx.case(repr((f, l, mode, reo)),
                             nontrivial=n >= 3 and max(lcfrs.fanouts(l, n)) >= 2)
                    if mode is None and reo == 'none':
                        ctx.stratum('rank>=4' if n >= 4 else 'rank=%d' % n)


def thaw(g):
    """JSON -> grammar dict"""
    out = {}
    for f, l, v, c in g:
        f = tuple(f)
        l = tuple(tuple((a, b) for a, b in arg) for arg in l)
        v = tuple(v)
        out.setdefault(f, {}).setdefault(l, {})[v] = c
    return out


def freeze(g):
    return [[list(f), [[list(x) for x in arg] for arg in l], list(v), c]
            for f in g for l in g[f] for v, c in g[f][l].items()]


LABS = ['B', 'C', 'D', 'E', 'F']
VERTS = [('A1', 'S1', 'VROOT1'), ('A2', 'VP2', 'S1', 'VROOT1'), ('A1', 'VROOT1')]


def shard(ctx):
    install(ctx.R)
    modes = all_modes()
    # ---- (a) sweep -------------------------------------------------------------
    maxv = ctx.pick(6, 7)
    rules = []
    for rank in (1, 2, 3, 4):
        for lin in lcfrs.enum_lins(rank, maxv):
            rules.append((rank, lin))
    rng0 = ctx.rng('rank5')
    r5 = lcfrs.enum_lins(5, 6)
    rng0.shuffle(r5)
    rules.extend((5, l) for l in r5[:ctx.pick(300, 3000)])
    if ctx.shard == 0:
        ctx.sum('sweep_rules', len(rules))
    batch = 12
    for b in range(0, len(rules), batch):
        if not ctx.mine(b // batch):
            continue
        rng = ctx.rng('sweep', b)
        g = {}
        for rank, lin in rules[b:b + batch]:
            rot = rng.randrange(5)
            rhs = [LABS[(rot + i) % 5] if rng.random() < 0.8 else 'B'
                   for i in range(rank)]
            f = ('A',) + tuple(rhs)
            fo = len(lin)
            vs = [rng.choice(VERTS)]
            if rng.random() < 0.3:
                vs.append(rng.choice(VERTS))
            for v in set(vs):
                v = ('A%d' % fo,) + v[1:]
                # a count of 0 (a grammar file may say C:0) is a count too
                g.setdefault(f, {}).setdefault(lin, {})[v] = \
                    rng.choice([1, 2, 3, 1, 2, 3, 0])
        ms = [None] + [modes[rng.randrange(1, len(modes))]
                       for _ in range(ctx.pick(8, 16))]
        run_grammar(ctx, g, ms, {'kind': 'grammar', 'grammar': freeze(g)})
        ctx.stratum('sweep grammars')
    # ---- (b) extracted grammars ---------------------------------------------------
    for i in ctx.indices(ctx.pick(3000, 40000)):
        rng = ctx.rng('ext', i)
        pools = gen.Pools(cats=['S', 'NP', 'VP', 'PP'], pos=['NN', 'VV', 'ART'])
        g, lex = {}, {}
        for j in range(rng.randint(1, 4)):
            n = rng.randint(3, 16)
            spec = gen.tree(rng, n, pools, max_arity=rng.choice([3, 5, 8]),
                            p_unary=0.1, moves=rng.choice([0, 1, 2, 4, 6]),
                            sid=j + 1)
            # categories that carry characters used in the generated labels
            # (not categories of the form @...X: the oracle tells binarization
            # symbols from original categories by that form, see ASSUMPTIONS)
            gen.spice(rng, spec, ['cat-keyword', 'cat-punct-char',
                                  'cat-apostrophe', 'cat-digit-first',
                                  'pos-punct-char'])
            live = common.live_tree(ctx, spec, rng)
            ctx.R.grammar.extract._vt_orig(live, g, lex) \
                if hasattr(ctx.R.grammar.extract, '_vt_orig') \
                else ctx.R.grammar.extract(live, g, lex)
        ms = [None] + [modes[rng.randrange(1, len(modes))]
                       for _ in range(ctx.pick(5, 10))]
        run_grammar(ctx, g, ms, {'kind': 'grammar', 'grammar': freeze(g)})
        ctx.stratum('extracted grammars')
        if i < 3:
            ctx.sample({'grammar': freeze(g)[:4]}, 3)


def replay(ctx, case):
    install(ctx.R)
    g = thaw(case['grammar'])
    mode, reo = case.get('mode', [None, 'none'])
    run_grammar(ctx, g, [mode], dict(case))

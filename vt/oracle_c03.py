"""C03 -- any-to-any conversion through the command line is total and lossless
(DESIGN 5/C03).  The events are exit status and destination files of real
`python /repo/treetools transform ...` processes; sources come from the
independent encoders, destinations are decoded by the independent decoders."""
import gzip
import io
import os

from . import codec, common, gen, model

PROPERTY = 'C03'
LEVEL = 'exploration'
SRC = ['export', 'brackets', 'discobrackets', 'tigerxml']
DST = ['export', 'brackets', 'discobrackets', 'tigerxml', 'terminals']
RULE = ('random treebanks (1..5 sentences, 1..10 tokens, continuous for '
        'bracket sources/destinations, discontinuous otherwise; ASCII / '
        'punctuation / XML-special / non-ASCII / parenthesis words) encoded by '
        'vt/codec.py in each of the 4 source formats and converted by real '
        '`treetools transform` processes to each of the 5 destination formats '
        '(all 20 pairs), two-step chains A->B->A and A->B->C, own-reader '
        'idempotence B->B (byte for byte), encodings utf-8 / latin-1 / utf-16 '
        'on either side, gzip sources, directory sources, export v4 and '
        'terminals options; command line == composition of the library '
        'functions it names (reader with --src-opts, --trans with --params, '
        'writer with --dest-opts) byte for byte under random subsets of all '
        'documented options; non-trivial = treebank of >= 2 sentences with >= '
        '3 tokens in some sentence; distinct = distinct (treebank, source, '
        'destination(s), encodings, options)')
ASSUMPTIONS = ['carry tables: export {sid, word, pos, morph, edge, labels below '
               'the root, structure} (+lemma for v4); brackets {word modulo '
               'parenthesis names, pos, labels, root label, continuous '
               'structure}; discobrackets {same, any structure}; TIGER-XML '
               '{sid, all fields, root label, structure}; terminals {words}',
               'all generated trees have the root label VROOT (the TIGER-XML '
               'reader documents that it adds one otherwise)',
               'sentence ids of formats that do not carry them are counted '
               'from 1']
WATCHDOG = {'quick': 900, 'thorough': 5400}
MIN = {'quick': {'distinct': 250,
                 'hooks': {'cli.transform': 600},
                 'strata': dict([('pair %s->%s' % (a, b), 6) for a in SRC
                                 for b in DST] +
                                [('chain A->B->A', 30), ('chain A->B->C', 20),
                                 ('own reader idempotent', 40),
                                 ('encoding latin-1', 15),
                                 ('encoding utf-16', 15), ('gzip source', 10),
                                 ('directory source', 5),
                                 ('options continuous', 3),
                                 ('options firstid', 3),
                                 ('options gf-roundtrip', 8),
                                 ('options gf_terminals-alone', 3),
                                 ('directory of gzip sources', 3),
                                 ('directory round trip in two steps', 5),
                                 ('driver: equals library composition', 150),
                                 ('word with non-ASCII space character', 6),
                                 ('driver with --counting', 100),
                                 ('driver: a transformation named twice', 10),
                                 ('driver: a flag given with a value', 15),
                                 ('TIGER-XML source without a node above the '
                                  'top constituent', 12),
                                 ('TIGER-XML source: one-token sentence '
                                  'without any nonterminal', 4)]
                                + [('driver with ' + o, 8) for o in (
                                    'gf', 'gf_split', 'gf_separator',
                                    'continuous', 'replace_parens',
                                    'brackets_firstid', 'export_four',
                                    'brackets_emptyroot', 'boyd_split',
                                    'mark_heads_marking', 'filter_by_length',
                                    'terminals_one', 'terminals_pos')])},
       'thorough': {'distinct': 5000, 'hooks': {'cli.transform': 15000}}}

CARRY = {
    'export': {'sid', 'word', 'pos', 'morph', 'edge', 'labels', 'struct'},
    'export4': {'sid', 'word', 'pos', 'morph', 'edge', 'labels', 'struct',
                'lemma'},
    'brackets': {'word', 'pos', 'labels', 'rootlabel', 'struct'},
    'discobrackets': {'word', 'pos', 'labels', 'rootlabel', 'struct'},
    'tigerxml': {'sid', 'word', 'pos', 'morph', 'edge', 'labels', 'rootlabel',
                 'struct', 'lemma'},
    'terminals': {'word'},
}
PAREN = {'brackets', 'discobrackets'}


def canon(node, carry, norm, is_root=True):
    f = (lambda s: codec.replace_parens(s)) if norm else (lambda s: s)
    if 'c' not in node:
        return ('T', node['n'], f(node['w']),
                f(node['p']) if 'pos' in carry else None,
                (node.get('lm') if node.get('lm') is not None else '--')
                if 'lemma' in carry else None,
                (node.get('m') if node.get('m') is not None else '--')
                if 'morph' in carry else None,
                (node.get('e') if node.get('e') is not None else '--')
                if 'edge' in carry else None)
    kids = sorted((canon(c, carry, norm, False) for c in node['c']),
                  key=_first)
    lab = node['l'] if 'labels' in carry else None
    if is_root and 'rootlabel' not in carry:
        lab = None
    edge = None
    if 'edge' in carry and not is_root:
        edge = node.get('e') if node.get('e') is not None else '--'
    return ('N', lab, edge, tuple(kids))


def _first(c):
    return c[1] if c[0] == 'T' else min(_first(k) for k in c[3])


def project(bank, carry, norm, sids):
    out = []
    for i, spec in enumerate(bank):
        if carry == {'word'}:
            toks = sorted(gen.tokens_of(spec['root']), key=lambda t: t['n'])
            out.append([t['w'] for t in toks])
            continue
        sid = (sids[i] if sids is not None else None) if 'sid' in carry \
            else None
        out.append((sid, canon(spec['root'], carry, norm)))
    return out


def encode(fmt, bank, rng, enc, v4=False):
    if fmt == 'export':
        return codec.export_encode(bank, v4=v4)
    if fmt == 'brackets':
        return codec.brackets_encode(bank, rng, empty_root=rng.random() < 0.5,
                                     layout=rng.choice(['line', 'pretty']))
    if fmt == 'discobrackets':
        return codec.discobrackets_encode(
            bank, rng=rng if rng.random() < 0.5 else None)
    # the sentence number is the last number of the id
    return codec.tigerxml_encode(bank, rng if rng.random() < 0.5 else None,
                                 encoding=enc,

                                 sid_format=rng.choice(['s%d', 's%d', '%d',
                                                        'tb3_s%d', 'c7.%d']))


def decode(fmt, data, enc, opts):
    if fmt == 'tigerxml':
        return codec.tigerxml_decode(data)
    text = data.decode(enc)
    if fmt == 'export':
        return codec.export_decode(text)
    if fmt == 'brackets':
        return codec.brackets_decode(text)
    if fmt == 'discobrackets':
        return codec.brackets_decode(text, disco=True)
    sents = codec.terminals_decode(text, one='terminals_one' in opts,
                                   pos='terminals_pos' in opts)
    return [[w for (w, p) in s] for s in sents]


def carry_of(fmt, opts=()):
    if fmt == 'export' and 'export_four' in opts:
        return CARRY['export4']
    return CARRY[fmt]


def src_carry(fmt, v4):
    return CARRY['export4'] if (fmt == 'export' and v4) else CARRY[fmt]


class Fail(Exception):
    def __init__(self, mech, detail):
        Exception.__init__(self, detail)
        self.mech = mech
        self.detail = detail


def convert(ctx, src, dest, sfmt, dfmt, senc='utf-8', denc='utf-8',
            dopts=(), sopts=('quiet',)):
    args = ['transform', src, dest, '--src-format', sfmt, '--dest-format',
            dfmt, '--src-enc', senc, '--dest-enc', denc]
    if sopts:
        args += ['--src-opts'] + list(sopts)
    if dopts:
        args += ['--dest-opts'] + list(dopts)
    convert.n += 1
    if convert.n % 3 == 0:
        # how often progress is reported is no business of the result
        args += ['--counting', str((1, 2, 3, 7)[convert.n // 3 % 4])]
        ctx.stratum('driver with --counting')
    rc, out, err = common.cli(args)
    ctx.hook('cli.transform')
    return rc, err


convert.n = 0


def words_pool(rng, enc, paren_ok):
    pool = list(gen.WORDS_ASCII)
    r = rng.random()
    if r < 0.3:
        pool += gen.COMMA + gen.QUOTES
    elif r < 0.5:
        pool += gen.WORDS_XML
    elif r < 0.75:
        pool += gen.WORDS_NONASCII
        if enc != 'latin-1':
            pool += gen.WORDS_BEYOND_LATIN1
    elif r < 0.9 and paren_ok:
        pool += ['(', ')', '[', ']', 'a(b)c', '-LRB-', '{']
    if rng.random() < 0.15:
        pool += ['C:\\', '\\', 'a\\', '1\\/2', 'None', 'nan']
    if rng.random() < 0.25:
        pool += gen.WORDS_TABSTOP
    if rng.random() < 0.2:
        pool += gen.WORDS_HASH
    return pool


def make_bank(rng, cont, enc, paren_ok, export_src, tiger_src=False):
    top1 = tiger_src and rng.random() < 0.45
    pools = gen.Pools(words=words_pool(rng, enc, paren_ok),
                      pos=gen.POS + ['$.', '$,'],
                      morphs=gen.MORPHS + (['Nom.Sg.Masc.Pos.St', 'abcdefgh',
                                            '3.Sg.Pres.Ind.Akt.x.y.z', 'None',
                                            'nan', 'True']
                                           if rng.random() < 0.3 else []),
                      lemma=rng.random() < 0.5)
    k = rng.randint(1, 5)
    bank = []
    sid = rng.choice([1, 1, 1, 4, 50, 0])
    for j in range(k):
        n = rng.choice([1, 2, 3, 4, 6]) if rng.random() < 0.6 \
            else rng.randint(1, 10)
        bank.append(gen.tree(rng, n, pools, max_arity=rng.choice([2, 3, 4]),
                             p_unary=rng.choice([0, 0.2]),
                             moves=0 if cont else rng.choice([0, 1, 2, 3]),
                             root_pieces=1 if top1 else rng.choice([1, 1, 2]),
                             sid=sid))
        sid += rng.choice([1, 1, 2])
    if top1:
        # as a TIGER-XML source a sentence whose root has one child is
        # written without a node above that child (third-party files rooted
        # in S, the tool's own output for bracket trees; a one-token sentence
        # then has no <nt> at all): the reader puts VROOT on top, the former
        # top node has no incoming edge and hence the default edge label
        for sp in bank:
            top = sp['root']['c'][0]
            if len(sp['root']['c']) == 1 \
                    and sp['root'].get('l', 'VROOT') == 'VROOT' \
                    and not str(top.get('l') if 'c' in top else top.get('p')
                                ).startswith('VROOT'):
                sp['no_vroot'] = True
                top['e'] = None
    return bank


def write_src(ctx, fmt, bank, rng, enc, gz, v4):
    text = encode(fmt, bank, rng, enc, v4)
    if fmt == 'tigerxml' and any(sp.get('no_vroot') for sp in bank):
        ctx.stratum('TIGER-XML source without a node above the top '
                    'constituent')
        if any(sp.get('no_vroot') and 'c' not in sp['root']['c'][0]
               for sp in bank):
            ctx.stratum('TIGER-XML source: one-token sentence without any '
                        'nonterminal')
    data = text.encode(enc)
    path = ctx.path('.' + fmt + ('.gz' if gz else ''))
    if gz:
        if rng.random() < 0.5 and len(data) > 20:
            cut = len(data) // 2
            with io.open(path, 'wb') as f:
                f.write(gzip.compress(data[:cut]))
                f.write(gzip.compress(data[cut:]))
        else:
            with gzip.open(path, 'wb') as f:
                f.write(data)
    else:
        with io.open(path, 'wb') as f:
            f.write(data)
    return path


def expected_sids(bank, fmts_in_chain):
    """sids survive only if every format in the chain so far carried them."""
    if all('sid' in CARRY[f] for f in fmts_in_chain):
        return [s['sid'] for s in bank]
    return list(range(1, len(bank) + 1))


def check_pair(ctx, case, rng):
    """One conversion A -> B (+ idempotence B -> B, + optional chain)."""
    sfmt, dfmt = case['src'], case['dst']
    senc, denc = case['senc'], case['denc']
    bank = case['bank']
    v4 = case.get('v4', False)
    dopts = list(case.get('dopts', []))
    src = write_src(ctx, sfmt, bank, rng, senc, case.get('gz'), v4)
    dest = common.preexisting(ctx, ctx.path('.' + dfmt), rng)
    rc, err = convert(ctx, src, dest, sfmt, dfmt, senc, denc, dopts)
    if rc != 0:
        mech = 'exit-status-%s->%s' % (sfmt, dfmt)
        if denc != 'utf-8' or senc != 'utf-8':
            mech += '-encoding'
        raise Fail(mech, 'exit %r: %s' % (rc, common.tail(err, 300)))
    data = open(dest, 'rb').read()
    try:
        got = decode(dfmt, data, denc, dopts)
    except Exception as e:
        mech = 'destination-does-not-decode-%s->%s' % (sfmt, dfmt)
        if dfmt == 'tigerxml' and denc != 'utf-8':
            mech = 'tigerxml-destination-encoding-%s' % denc
        raise Fail(mech, '%r | file starts %r' % (e, data[:200]))
    carry = src_carry(sfmt, v4) & carry_of(dfmt, dopts)
    if dfmt == 'terminals':
        carry = {'word'}
    norm = sfmt in PAREN or dfmt in PAREN
    sids = expected_sids(bank, [sfmt])
    want = project(bank, carry, norm, sids)
    have = got if dfmt == 'terminals' else \
        project(got, carry, norm, [s['sid'] for s in got])
    if dfmt == 'terminals' and norm:
        want = [[codec.replace_parens(w) for w in s] for s in want]
        have = [[codec.replace_parens(w) for w in s] for s in have]
    if have != want:
        mech = 'content-lost-%s->%s' % (sfmt, dfmt)
        if len(have) != len(want):
            mech = 'sentence-count-%s->%s' % (sfmt, dfmt)
        raise Fail(mech, 'decoded destination differs from the source on %s: '
                   'first difference %s | file starts %r'
                   % (sorted(carry), first_diff(have, want), data[:200]))
    ctx.stratum('pair %s->%s' % (sfmt, dfmt))
    # ---- own reader accepts what the own writer produced, identically --------
    if dfmt != 'terminals':
        again = ctx.path('.' + dfmt)
        sopts = ['quiet']
        rc, err = convert(ctx, dest, again, dfmt, dfmt, denc, denc, dopts,
                          sopts)
        if rc != 0:
            mech = 'own-reader-rejects-own-%s' % dfmt
            if dfmt == 'tigerxml' and denc != 'utf-8':
                mech = 'tigerxml-destination-encoding-%s' % denc
            raise Fail(mech, 'exit %r: %s' % (rc, common.tail(err, 300)))
        data2 = open(again, 'rb').read()
        if data2 != data:
            # byte identity is required except for counted sentence ids
            try:
                got2 = decode(dfmt, data2, denc, dopts)
                same = project(got2, carry_of(dfmt, dopts), False,
                               [s['sid'] for s in got2]) == \
                    project(got, carry_of(dfmt, dopts), False,
                            [s['sid'] for s in got])
            except Exception as e:
                same = False
            raise Fail('own-%s-not-idempotent%s' % (dfmt, '' if not same
                                                    else '-bytes-only'),
                       're-converting the produced %s file gives a different '
                       'file: %r vs %r' % (dfmt, data[:160], data2[:160]))
        ctx.stratum('own reader idempotent')
    return dest, got


def first_diff(a, b):
    if len(a) != len(b):
        return '%d vs %d sentences' % (len(a), len(b))
    for i, (x, y) in enumerate(zip(a, b)):
        if x != y:
            return 'sentence %d: %r vs %r' % (i + 1, str(x)[:300], str(y)[:300])
    return 'none'


def run_case(ctx, case):
    rng = ctx.rng('enc', case.get('seed', 0))
    try:
        kind = case['kind']
        if kind == 'pair':
            check_pair(ctx, case, rng)
        elif kind == 'chain':
            run_chain(ctx, case, rng)
        elif kind == 'dir':
            run_dir(ctx, case, rng)
        elif kind == 'opts':
            run_opts(ctx, case, rng)
        elif kind == 'driver':
            run_driver(ctx, case, rng)
    except Fail as f:
        ctx.fail('C03:' + f.mech, case, f.detail)
        return
    except FileNotFoundError as e:
        # exit status 0 but a destination file was never written
        ctx.fail('C03:destination-file-missing', case, repr(e))
        return
    bank = case['bank']
    if case['senc'] != 'utf-8' or case['denc'] != 'utf-8':
        for e in set([case['senc'], case['denc']]) - {'utf-8'}:
            ctx.stratum('encoding ' + e)
    if case.get('gz'):
        ctx.stratum('gzip source')
    if case.get('unispace'):
        ctx.stratum('word with non-ASCII space character')
    ctx.case([kind, case.get('src'), case.get('dst'), case.get('via'),
              case['senc'], case['denc'], case.get('dopts'),
              [s['root'] for s in bank]],
             nontrivial=len(bank) >= 2 and
             max(len(gen.tokens_of(s['root'])) for s in bank) >= 3)


def run_chain(ctx, case, rng):
    """A -> B -> C  (C == A: round trip; else compared with A -> C)."""
    a, b, c = case['src'], case['via'], case['dst']
    bank = case['bank']
    enc = 'utf-8'
    src = write_src(ctx, a, bank, rng, enc, False, False)
    mid = ctx.path('.' + b)
    rc, err = convert(ctx, src, mid, a, b)
    if rc != 0:
        raise Fail('exit-status-%s->%s' % (a, b), common.tail(err, 300))
    end = ctx.path('.' + c)
    rc, err = convert(ctx, mid, end, b, c)
    if rc != 0:
        raise Fail('exit-status-chain-%s->%s->%s' % (a, b, c),
                   common.tail(err, 300))
    got = decode(c, open(end, 'rb').read(), enc, [])
    carry = CARRY[a] & CARRY[b] & CARRY[c]
    norm = bool({a, b, c} & PAREN)
    sids = expected_sids(bank, [a, b])
    want = project(bank, carry, norm, sids)
    if c == 'terminals':
        have = got
        want = project(bank, {'word'}, norm, None)
        if norm:
            want = [[codec.replace_parens(w) for w in s] for s in want]
    else:
        have = project(got, carry, norm, [s['sid'] for s in got])
    if have != want:
        raise Fail('chain-%s->%s->%s-content' % (a, b, c),
                   'on %s: %s' % (sorted(carry), first_diff(have, want)))
    if a == c:
        ctx.stratum('chain A->B->A')
    else:
        direct = ctx.path('.' + c)
        rc, err = convert(ctx, src, direct, a, c)
        if rc != 0:
            raise Fail('exit-status-%s->%s' % (a, c), common.tail(err, 300))
        got2 = decode(c, open(direct, 'rb').read(), enc, [])
        if c == 'terminals':
            h2 = got2
            if norm:
                h2 = [[codec.replace_parens(w) for w in s] for s in h2]
                have = [[codec.replace_parens(w) for w in s] for s in have]
        else:
            # sids: direct conversion keeps them iff a and c carry them
            h2 = project(got2, carry - {'sid'}, norm, None)
            have = project(got, carry - {'sid'}, norm, None)
        if h2 != have:
            raise Fail('chain-%s->%s->%s-differs-from-direct' % (a, b, c),
                       first_diff(have, h2))
        ctx.stratum('chain A->B->C')


def run_dir(ctx, case, rng):
    sfmt, dfmt = case['src'], case['dst']
    d = ctx.path('.dir')
    os.mkdir(d)
    banks = case['banks']
    names = []
    gz = case.get('gz') and sfmt != 'tigerxml'
    for i, bank in enumerate(banks):
        text = encode(sfmt, bank, rng, 'utf-8')
        name = 'part%d.%s' % (i, sfmt) + ('.gz' if gz else '')
        where = os.path.join(d, name)
        if rng.random() < 0.3:
            # the directory holds a symbolic link to the file (a corpus kept
            # elsewhere): it is a file of the directory like any other
            store = ctx.path('.store')
            os.mkdir(store)
            where = os.path.join(store, 'kept_' + name)
            os.symlink(where, os.path.join(d, name))
            ctx.stratum('directory mode: symbolic link to a file')
        if gz:
            with gzip.open(where, 'wb') as f:
                f.write(text.encode('utf-8'))
        else:
            with io.open(where, 'w', encoding='utf-8') as f:
                f.write(text)
        names.append(name)
    sopts = tuple(case.get('sopts') or ('quiet',))
    rc, err = convert(ctx, d, os.path.join(d, 'ignored'), sfmt, dfmt,
                      sopts=sopts)
    if rc != 0:
        raise Fail('directory-mode-exit-status', common.tail(err, 300))
    listing = sorted(os.listdir(d))
    want = sorted(names + [n + '.dest' for n in names])
    if listing != want:
        raise Fail('directory-mode-files', 'directory holds %r, expected %r'
                   % (listing, want))
    for name, bank in zip(names, banks):
        data = open(os.path.join(d, name + '.dest'), 'rb').read()
        got = decode(dfmt, data, 'utf-8', [])
        carry = CARRY[sfmt] & CARRY[dfmt]
        norm = sfmt in PAREN or dfmt in PAREN
        if dfmt == 'terminals':
            want = project(bank, {'word'}, norm, None)
            have = got
            if norm:
                want = [[codec.replace_parens(w) for w in s] for s in want]
                have = [[codec.replace_parens(w) for w in s] for s in have]
        else:
            want = project(bank, carry - {'sid'}, norm, None)
            have = project(got, carry - {'sid'}, norm, None)
        if have != want:
            raise Fail('directory-mode-content', '%s: %s'
                       % (name, first_diff(have, want)))
        # every file is converted as if it were the only one
        alone = ctx.path('.alone')
        rc, err = convert(ctx, os.path.join(d, name), alone, sfmt, dfmt,
                          sopts=sopts)
        if rc != 0:
            raise Fail('directory-mode-single-file-exit-status',
                       common.tail(err, 300))
        if open(alone, 'rb').read() != data:
            raise Fail('directory-mode-differs-from-single-file',
                       '%s converted inside the directory (reader options %r) '
                       'differs from the same file converted alone: %r vs %r'
                       % (name, sopts, data[:120],
                          open(alone, 'rb').read()[:120]))
    if len(sopts) > 1:
        ctx.stratum('directory source with a reader option')
    ctx.stratum('directory source')
    if gz:
        ctx.stratum('directory of gzip sources')
    # second step: the files the tool just wrote (x.dest) as a directory source
    if dfmt != 'terminals':
        d2 = ctx.path('.dir2')
        os.mkdir(d2)
        for name in names:
            os.rename(os.path.join(d, name + '.dest'),
                      os.path.join(d2, name + '.dest'))
        back = sfmt if not (sfmt == 'brackets' and False) else sfmt
        rc, err = convert(ctx, d2, os.path.join(d2, 'ignored'), dfmt, back)
        if rc != 0:
            raise Fail('directory-mode-second-step-exit-status',
                       common.tail(err, 300))
        listing = sorted(os.listdir(d2))
        want = sorted([n + '.dest' for n in names]
                      + [n + '.dest.dest' for n in names])
        if listing != want:
            raise Fail('directory-mode-files', 'second step over the written '
                       '.dest files: directory holds %r, expected %r'
                       % (listing, want))
        ctx.stratum('directory round trip in two steps')


def run_opts(ctx, case, rng):
    """Documented reader / writer options given on the command line
    (key:value parsing included)."""
    scen = case['scenario']
    bank = case['bank']
    sep = case.get('sep', '-')
    if scen == 'continuous':
        src = write_src(ctx, 'export', bank, rng, 'utf-8', False, False)
        dest = ctx.path('.export')
        rc, err = convert(ctx, src, dest, 'export', 'export',
                          sopts=('quiet', 'continuous'))
        if rc != 0:
            raise Fail('options-exit-status-continuous', common.tail(err, 300))
        got = codec.export_decode(common.read(dest))
        if [s['sid'] for s in got] != list(range(1, len(bank) + 1)):
            raise Fail('option-continuous-ids', 'ids %r'
                       % ([s['sid'] for s in got],))
    elif scen == 'firstid':
        n = case['firstid']
        src = write_src(ctx, 'brackets', bank, rng, 'utf-8', False, False)
        dest = ctx.path('.export')
        rc, err = convert(ctx, src, dest, 'brackets', 'export',
                          sopts=('quiet', 'brackets_firstid:%d' % n))
        if rc != 0:
            raise Fail('options-exit-status-firstid', common.tail(err, 300))
        got = codec.export_decode(common.read(dest))
        if [s['sid'] for s in got] != list(range(n, n + len(bank))):
            raise Fail('option-brackets_firstid-ids', 'first id %d: ids %r'
                       % (n, [s['sid'] for s in got]))
    elif scen == 'gf-roundtrip':
        # export -> brackets with gf [gf_separator] -> export with gf_split:
        # the edge labels of the constituents travel inside the labels
        src = write_src(ctx, 'export', bank, rng, 'utf-8', False, False)
        mid = ctx.path('.brackets')
        dopts = ['gf'] + (['gf_separator:' + sep] if sep != '-' else [])
        tok = case.get('gf_terminals', False)
        if tok:
            dopts.append('gf_terminals')
        rc, err = convert(ctx, src, mid, 'export', 'brackets', dopts=dopts)
        if rc != 0:
            raise Fail('options-exit-status-gf', common.tail(err, 300))
        dec = codec.brackets_decode(common.read(mid))
        for spec, d in zip(bank, dec):
            want = sorted((n['l'] + (sep + n['e'] if n['e'] != '--' else ''))
                          for n in gen.walk(spec['root'])
                          if 'c' in n and n is not spec['root'])
            have = sorted(n['l'] for n in codec._walk(d['root'])
                          if 'c' in n and n is not d['root'])
            if want != have:
                raise Fail('option-gf-decoration', 'labels %r, expected %r'
                           % (have[:6], want[:6]))
            wantt = sorted(t['p'] + (sep + t['e'] if tok and t['e'] != '--'
                                     else '')
                           for t in gen.tokens_of(spec['root']))
            havet = sorted(n['p'] for n in codec._walk(d['root'])
                           if 'c' not in n)
            if wantt != havet:
                raise Fail('option-gf_terminals-decoration',
                           'token labels %r, expected %r (gf_terminals=%r)'
                           % (havet[:6], wantt[:6], tok))
        back = ctx.path('.export')
        sopts = ['quiet', 'gf_split'] + (['gf_separator:' + sep]
                                         if sep != '-' else [])
        rc, err = convert(ctx, mid, back, 'brackets', 'export', sopts=sopts)
        if rc != 0:
            raise Fail('options-exit-status-gf_split', common.tail(err, 300))
        got = codec.export_decode(common.read(back))
        for spec, d in zip(bank, got):
            want = sorted((n['l'], n['e']) for n in gen.walk(spec['root'])
                          if 'c' in n and n is not spec['root'])
            have = sorted((n['l'], n['e']) for n in codec._walk(d['root'])
                          if 'c' in n and n is not d['root'])
            if want != have:
                raise Fail('option-gf-roundtrip', '(label, edge) %r, '
                           'expected %r' % (have[:6], want[:6]))
    elif scen == 'gf_terminals-alone':
        # documented as "if gf is set": alone it must change nothing
        src = write_src(ctx, 'export', bank, rng, 'utf-8', False, False)
        outs = []
        for dopts in ([], ['gf_terminals']):
            for dfmt in ('brackets', 'export'):
                dest = ctx.path('.' + dfmt)
                rc, err = convert(ctx, src, dest, 'export', dfmt, dopts=dopts)
                if rc != 0:
                    raise Fail('options-exit-status-gf_terminals',
                               common.tail(err, 300))
                outs.append(common.read(dest))
        if outs[0] != outs[2] or outs[1] != outs[3]:
            raise Fail('option-gf_terminals-alone-changes-output',
                       'output with --dest-opts gf_terminals differs from the '
                       'output without: %r vs %r' % (outs[2][:120],
                                                     outs[0][:120]))
    ctx.stratum('options ' + scen)


def _own_options(opts):
    """key:value options as documented: True for a bare key, an integer for
    a value made of digits, the string otherwise."""
    d = {}
    for o in opts:
        if ':' in o:
            k, v = o.split(':', 1)
            d[k] = int(v) if v.isdigit() else v
        else:
            d[o] = True
    return d


def run_driver(ctx, case, rng):
    """The command line is the composition of the library functions it names:
    reader with --src-opts, transformations with --params, writer with
    --dest-opts, encodings as given -- byte for byte.  (What the library
    functions themselves do is judged by C01, C02, C04, ...)"""
    R = ctx.R
    sfmt, dfmt = case['src'], case['dst']
    src = write_src(ctx, sfmt, case['bank'], rng, case['senc'], case['gz'],
                    False)
    dest = common.preexisting(ctx, ctx.path('.' + dfmt), rng)
    args = ['transform', src, dest, '--src-format', sfmt, '--dest-format',
            dfmt, '--src-enc', case['senc'], '--dest-enc', case['denc'],
            '--src-opts'] + case['sopts']
    if case['dopts']:
        args += ['--dest-opts'] + case['dopts']
    if case['trans']:
        args += ['--trans'] + case['trans']
    if case['params']:
        args += ['--params'] + case['params']
    rc, out, err = common.cli(args)
    ctx.hook('cli.transform')
    so, do, po = (_own_options(case[k]) for k in ('sopts', 'dopts', 'params'))
    ref = ctx.path('.ref')
    problem = None
    try:
        with common.captured(), io.open(ref, 'w',
                                        encoding=case['denc']) as buf:
            getattr(R.treeoutput, dfmt + '_begin')(buf, **dict(do))
            for t in getattr(R.treeinput, sfmt)(src, case['senc'], **dict(so)):
                for name in case['trans']:
                    t = getattr(R.transform, name)(t, **dict(po))
                    if t is None:
                        break
                if t is not None:
                    getattr(R.treeoutput, dfmt)(t, buf, **dict(do))
            getattr(R.treeoutput, dfmt + '_end')(buf, **dict(do))
        with io.open(ref, 'rb') as f:
            want = f.read()
    except Exception as e:
        problem = e
    ctx.hook('library composition')
    if problem is not None:
        if rc == 0:
            raise Fail('driver-succeeds-where-library-raises',
                       'library composition raises %r, command line exits 0'
                       % (problem,))
        ctx.stratum('driver: both reject')
        return
    if rc != 0:
        raise Fail('driver-exit-status', 'library composition succeeds, '
                   'command line exits %r: %s' % (rc, common.tail(err, 300)))
    with io.open(dest, 'rb') as f:
        got = f.read()
    if got != want:
        i = next((i for i, (a, b) in enumerate(zip(got, want)) if a != b),
                 min(len(got), len(want)))
        raise Fail('driver-differs-from-library-composition',
                   'src-opts %r dest-opts %r trans %r params %r: output '
                   'differs at byte %d: %r vs %r'
                   % (case['sopts'], case['dopts'], case['trans'],
                      case['params'], i, got[max(0, i - 30):i + 30],
                      want[max(0, i - 30):i + 30]))
    ctx.stratum('driver: equals library composition')
    if case.get('repeated'):
        ctx.stratum('driver: a transformation named twice')
    if case.get('flagval'):
        ctx.stratum('driver: a flag given with a value')
    if len([p_ for p_ in case['params'] if p_.startswith('filtervalue:')]) > 1:
        ctx.stratum('driver: the same parameter twice')
    for o in case['sopts'] + case['dopts'] + case['trans']:
        if o != 'quiet':
            ctx.stratum('driver with ' + o.split(':')[0])


def draw_driver(rng):
    sfmt = rng.choice(SRC)
    dfmt = rng.choice(DST)
    senc = rng.choice(['utf-8', 'utf-8', 'latin-1'])
    denc = rng.choice(['utf-8', 'utf-8', 'latin-1', 'utf-16'])
    trans, params, dopts, sopts = [], [], [], ['quiet']
    punct_bank = False
    repeated = flagval = False
    r = rng.random()
    resolve = False
    if r < 0.2:
        trans = ['root_attach', 'negra_mark_heads', 'boyd_split']
        if rng.random() < 0.5:
            trans.append('raising')
            resolve = True
        dopts += rng.choice([['boyd_split_marking'], ['boyd_split_numbering'],
                             ['boyd_split_marking', 'boyd_split_numbering'],
                             []])
    elif r < 0.4:
        trans = ['negra_mark_heads'] + (['binarize'] if rng.random() < 0.6
                                        else [])
        if rng.random() < 0.7:
            dopts.append('mark_heads_marking')
        if 'binarize' in trans and rng.random() < 0.4:
            params.append('bare_bin_labels')
    elif r < 0.5:
        trans = [rng.choice(['punctuation_delete', 'punctuation_verylow',
                             'add_topnode', 'collapse_unary_chains',
                             'root_attach', 'punctuation_root',
                             'punctuation_verylow', 'punctuation_symetrify',
                             'punctuation_root'])]
        punct_bank = True
    elif r < 0.6:
        trans = ['filter_by_length']
        params += ['filteroperator:' + rng.choice(['lt', 'gt', 'eq', 'le',
                                                   'ge']),
                   'filtervalue:%d' % rng.randint(1, 6)]
        # the transformations run in the order given: a step that changes the
        # number of tokens before / after the filter
        if rng.random() < 0.6:
            trans = rng.choice([['punctuation_delete', 'filter_by_length'],
                                ['filter_by_length', 'punctuation_delete'],
                                ['punctuation_delete', 'filter_by_length',
                                 'root_attach']])
            punct_bank = True
    elif r < 0.7:
        trans = rng.choice([['add_topnode', 'punctuation_root'],
                            ['root_attach', 'punctuation_verylow'],
                            ['punctuation_verylow', 'root_attach'],
                            ['mark_heads_by_rules', 'negra_mark_heads'],
                            ['negra_mark_heads', 'mark_heads_by_rules'],
                            ['collapse_unary_chains',
                             'uncollapse_unary_chains']])
        if 'mark_heads_by_rules' in trans:
            params.append('mark_heads_preset:negra')
            dopts.append('mark_heads_marking')
        punct_bank = True
    elif r < 0.82:
        # a transformation named twice, something else in between: every
        # entry of --trans is applied, in the order given
        trans = rng.choice([
            ['root_attach', 'punctuation_root', 'root_attach'],
            ['punctuation_root', 'punctuation_verylow', 'punctuation_root'],
            ['punctuation_verylow', 'punctuation_root', 'punctuation_verylow'],
            ['negra_mark_heads', 'punctuation_delete', 'negra_mark_heads'],
            ['add_topnode', 'add_topnode'],
            ['add_topnode', 'collapse_unary_chains', 'add_topnode'],
            ['root_attach', 'negra_mark_heads', 'boyd_split', 'raising',
             'punctuation_root', 'negra_mark_heads', 'boyd_split', 'raising']])
        if 'negra_mark_heads' in trans:
            dopts.append('mark_heads_marking')
        punct_bank = True
        repeated = True
    cont = sfmt == 'brackets' or (dfmt == 'brackets' and not resolve
                                  and rng.random() < 0.8)
    if dfmt == 'brackets' and not cont and not resolve and rng.random() < 0.5:
        dopts.append('brackets_skipdisco')
    if rng.random() < 0.4:
        dopts.append('gf')
        if rng.random() < 0.5:
            dopts.append('gf_terminals')
        if rng.random() < 0.5:
            dopts.append('gf_separator:' + rng.choice(['#', '+', '/', '-',
                                                       '--', '=', '*']))
    if rng.random() < 0.25:
        dopts.append('brackets_emptyroot')
    if rng.random() < 0.25:
        dopts.append('export_four')
    if rng.random() < 0.25:
        dopts.append(rng.choice(['terminals_one', 'terminals_pos']))
    if rng.random() < 0.3:
        sopts.append('gf_split')
        if rng.random() < 0.4:
            sopts.append('gf_separator:' + rng.choice(['#', '+', '-']))
    if rng.random() < 0.3:
        sopts.append('continuous')
    if rng.random() < 0.3:
        sopts.append('replace_parens')
    if rng.random() < 0.3:
        sopts.append('brackets_firstid:%d' % rng.choice([0, 9, 500]))
    rng.shuffle(dopts)
    if rng.random() < 0.3:
        # a flag may be given with a value (key:value is the documented form
        # of every option): it is on whenever it is named
        r2 = __import__('random').Random(rng.random())
        for lst in (dopts, sopts):
            for i_, o_ in enumerate(lst):
                if ':' not in o_ and o_ != 'quiet' and r2.random() < 0.5:
                    lst[i_] = o_ + r2.choice([':1', ':true', ':yes'])
                    flagval = True
    if params and rng.random() < 0.25 and any(
            p_.startswith('filtervalue:') for p_ in params):
        # the same key twice: the later entry counts
        params.insert(0, 'filtervalue:%d' % rng.randint(1, 40))
    case = {'kind': 'driver', 'src': sfmt, 'dst': dfmt, 'senc': senc,
            'denc': denc, 'trans': trans, 'params': params, 'dopts': dopts,
            'sopts': sopts, 'seed': rng.randrange(10 ** 6),
            'gz': sfmt != 'tigerxml' and rng.random() < 0.15,
            'repeated': repeated, 'flagval': flagval}
    lim = 'latin-1' if 'latin-1' in (senc, denc) else 'utf-8'
    case['bank'] = make_bank(rng, cont, lim, sfmt in ('export', 'tigerxml'),
                             sfmt == 'export', sfmt == 'tigerxml')
    if punct_bank:
        for s_ in case['bank']:
            for t_ in gen.tokens_of(s_['root']):
                if rng.random() < 0.3:
                    t_['w'] = rng.choice([',', '.', '"', '-', '?', "''"])
                    if t_.get('lm') not in (None, '--'):
                        t_['lm'] = t_['w']
                elif rng.random() < 0.4:
                    # whatever a transformation reports about the tokens it
                    # moves has to get through the standard streams
                    t_['w'] = rng.choice(['\u00dcbung', 'caf\u00e9',
                                          '\u00c4rger', 'stra\u00dfe'])
    return case


def draw_pair(rng, sfmt, dfmt):
    cont = 'brackets' in (sfmt, dfmt)
    senc = rng.choice(['utf-8', 'utf-8', 'latin-1', 'utf-16'])
    denc = rng.choice(['utf-8', 'utf-8', 'latin-1', 'utf-16'])
    if sfmt == 'tigerxml':
        senc = rng.choice(['utf-8', 'utf-8', 'latin-1'])
    lim = 'latin-1' if 'latin-1' in (senc, denc) else 'utf-8'
    paren_ok = sfmt in ('export', 'tigerxml')
    case = {'kind': 'pair', 'src': sfmt, 'dst': dfmt, 'senc': senc,
            'denc': denc, 'seed': rng.randrange(10 ** 6),
            'gz': sfmt != 'tigerxml' and rng.random() < 0.2,
            'v4': sfmt == 'export' and rng.random() < 0.4}
    case['bank'] = make_bank(rng, cont, lim, paren_ok, sfmt == 'export',
                             sfmt == 'tigerxml')
    if 'export' not in (sfmt, dfmt) and rng.random() < 0.25:
        # characters that are white space for Unicode but not for these
        # formats (the export format cannot carry them: its reader splits
        # fields on any Unicode white space)
        ws = [w for w in gen.WORDS_UNISPACE
              if lim != 'latin-1' or all(ord(c) < 256 for c in w)]
        for s_ in case['bank']:
            for t_ in gen.tokens_of(s_['root']):
                if rng.random() < 0.3:
                    t_['w'] = rng.choice(ws)
                    if 'lm' in t_ and t_['lm'] not in (None, '--'):
                        t_['lm'] = t_['w']
        case['unispace'] = True
    dopts = []
    if dfmt == 'export' and rng.random() < 0.4:
        dopts.append('export_four')
    if dfmt == 'terminals' and rng.random() < 0.3:
        dopts.append('terminals_one')
    case['dopts'] = dopts
    return case


def shard(ctx):
    pairs = [(a, b) for a in SRC for b in DST]
    reps = ctx.pick(12, 250)
    k = 0
    for rep in range(reps):
        for (a, b) in pairs:
            k += 1
            if not ctx.mine(k):
                continue
            rng = ctx.rng('pair', k)
            case = draw_pair(rng, a, b)
            run_case(ctx, case)
            if k <= 3:
                ctx.sample({'pair': [a, b], 'encodings': [case['senc'],
                                                          case['denc']],
                            'trees': [model.show(model.from_spec(s['root']), 'w')
                                      for s in case['bank']][:2]}, 3)
    for i in ctx.indices(ctx.pick(140, 4000)):
        rng = ctx.rng('chain', i)
        a = rng.choice(SRC)
        b = rng.choice(SRC)
        c = a if rng.random() < 0.55 else rng.choice(DST)
        cont = 'brackets' in (a, b, c)
        case = {'kind': 'chain', 'src': a, 'via': b, 'dst': c,
                'senc': 'utf-8', 'denc': 'utf-8',
                'seed': rng.randrange(10 ** 6)}
        case['bank'] = make_bank(rng, cont, 'utf-8',
                                 a in ('export', 'tigerxml'), a == 'export',
                                 a == 'tigerxml')
        run_case(ctx, case)
    for i in ctx.indices(ctx.pick(48, 1500)):
        run_case(ctx, draw_opts(ctx.rng('opts', i)))
    for i in ctx.indices(ctx.pick(200, 5000)):
        run_case(ctx, draw_driver(ctx.rng('driver', i)))
    for i in ctx.indices(ctx.pick(24, 400)):
        rng = ctx.rng('dir', i)
        a, b = rng.choice(SRC), rng.choice(DST)
        cont = 'brackets' in (a, b)
        case = {'kind': 'dir', 'src': a, 'dst': b, 'senc': 'utf-8',
                'denc': 'utf-8', 'seed': rng.randrange(10 ** 6)}
        case['banks'] = [make_bank(rng, cont, 'utf-8', False, False,
                                   a == 'tigerxml')
                         for _ in range(rng.randint(1, 4))]
        case['gz'] = rng.random() < 0.5
        case['bank'] = case['banks'][0]
        if a in ('brackets', 'discobrackets') and rng.random() < 0.6:
            case['sopts'] = ['quiet', 'brackets_firstid:%d'
                             % rng.choice([0, 7, 100])]
        elif a in ('export', 'tigerxml') and rng.random() < 0.3:
            case['sopts'] = ['quiet', 'continuous']
        run_case(ctx, case)


def draw_opts(rng):
    scen = rng.choice(['continuous', 'firstid', 'gf-roundtrip', 'gf-roundtrip',
                       'gf_terminals-alone'])
    pools = gen.Pools(edges=['HD', 'NK', 'SB', 'OA', '--', '--'], lemma=False)
    k = rng.randint(1, 4)
    sid = rng.choice([3, 10, 77])
    bank = []
    for j in range(k):
        bank.append(gen.tree(rng, rng.randint(1, 8), pools,
                             max_arity=rng.choice([2, 3, 4]), p_unary=0.15,
                             moves=0, sid=sid))
        sid += rng.choice([1, 2, 5])
    return {'kind': 'opts', 'scenario': scen, 'bank': bank,
            'firstid': rng.choice([0, 5, 42, 1000]),
            'gf_terminals': rng.random() < 0.5,
            'sep': rng.choice(['-', '#', '+']), 'senc': 'utf-8',
            'denc': 'utf-8', 'seed': rng.randrange(10 ** 6)}


def replay(ctx, case):
    run_case(ctx, case)

"""vt: runtime-monitoring toolkit for wmaier/treetools (see /verif/DESIGN.md).

Nothing in this package computes an expectation by calling the repository:
the repository is only ever *executed and observed*.
"""
GUARD = "TREETOOLS_VERIF"

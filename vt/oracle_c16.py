"""C16 -- gap-degree analysis agrees with the set-based definition (DESIGN 5/C16)."""
import io
import re

from . import codec, common, contracts, gen, model

PROPERTY = 'C16'
LEVEL = 'exploration'
RULE = ('random treebanks (1..8 sentences, 1..40 tokens, gap degree 0..n/2 via '
        'token transpositions, unary nodes, gaps at several levels) built '
        'through the Tree API; every node of every tree is evaluated; the '
        'three analysis tasks run through the API accumulators and through the '
        'real command line on files written by an independent export encoder; '
        'disco_order on binary trees in both modes; non-trivial = treebank '
        'with at least one node of gap degree >= 1; distinct = distinct '
        'canonical treebank')
ASSUMPTIONS = ['set-based definition: gap degree = number of maximal '
               'contiguous runs of the yield - 1 (vt/model.py runs())',
               'export files for the CLI runs come from vt/codec.py']
WATCHDOG = {'quick': 600, 'thorough': 3600}
LONG_SENTENCES = 3      # floor for the stratum the runner adds (gen.maybe_long)
MIN = {'quick': {'distinct': 300,
                 'hooks': {'treeanalysis.gap_degree_node': 5000,
                           'trees.terminal_blocks': 5000,
                           'treeanalysis.gap_degree': 500,
                           'treeanalysis.disco_order': 500,
                           'cli.treeanalysis': 30},
                 'strata': {'node gapdeg>=2': 50, 'cli source in latin-1': 6,
                            're-analysis after in-place transformation': 300,
                            'looked at before the in-place transformation: '
                            'extract': 60}},
       'thorough': {'distinct': 20000,
                    'hooks': {'treeanalysis.gap_degree_node': 500000,
                              'cli.treeanalysis': 1000}}}


class Cur(object):
    ctx = None
    by_id = {}
    spec = None


def _m(live):
    return Cur.by_id.get(id(live))


def _fail(mech, detail):
    Cur.ctx.fail('C16:' + mech, {'kind': 'tree', 'spec': Cur.spec}, detail)


def post_gdn(old, result, exc, args, kw):
    m = _m(args[0])
    if m is None:
        return
    if exc is not None:
        _fail('gap_degree_node-raises', repr(exc))
        return
    exp = model.gapdeg_node(m)
    Cur.ctx.stratum('node gapdeg>=2' if exp >= 2 else 'node gapdeg=%d' % exp)
    if result != exp:
        _fail('gap_degree_node', 'node %s yield %r: reported %r, runs-1 = %d'
              % (m.label, m.nums(), result, exp))


def post_blocks(old, result, exc, args, kw):
    m = _m(args[0])
    if m is None:
        return
    if exc is not None:
        _fail('terminal_blocks-raises', repr(exc))
        return
    exp = model.runs(m.nums())
    got = [[t.data.get('num') for t in b] for b in result]
    if got != exp:
        _fail('terminal_blocks', 'node %s: blocks %r, runs %r'
              % (m.label, got, exp))
        return
    toks = {t.num: t.ref for t in m.toks()}
    for b in result:
        for t in b:
            if toks.get(t.data.get('num')) is not t:
                _fail('terminal_blocks-foreign-node', 'block member is not '
                      'the token of the tree')
                return


def post_gd(old, result, exc, args, kw):
    m = _m(args[0])
    if m is None:
        return
    if exc is not None:
        _fail('gap_degree-raises', repr(exc))
        return
    exp = max(model.gapdeg_node(n) for n in m.nodes())
    if result != exp:
        _fail('gap_degree', 'tree gap degree %r, max over nodes %d'
              % (result, exp))


def post_disco(old, result, exc, args, kw):
    m = _m(args[0])
    if m is None:
        return
    mode = args[1] if len(args) > 1 else kw.get('mode')
    if exc is not None:
        _fail('disco_order-raises', '%r (mode %r)' % (exc, mode))
        return
    want = [t.ref for t in m.toks()]
    if sorted(id(x) for x in result) != sorted(id(x) for x in want):
        _fail('disco_order-not-permutation', 'mode %s: %r vs tokens %r'
              % (mode, [x.data.get('num') for x in result], m.nums()))
        return
    if all(model.gapdeg_node(n) == 0 for n in m.nodes()):
        if any(a is not b for a, b in zip(result, want)):
            _fail('disco_order-not-identity', 'mode %s on a continuous '
                  '(sub)tree gives %r' % (mode,
                                          [x.data.get('num') for x in result]))


def install(R):
    contracts.attach(R.treeanalysis, 'gap_degree_node', None, post_gdn)
    contracts.attach(R.trees, 'terminal_blocks', None, post_blocks)
    contracts.attach(R.treeanalysis, 'gap_degree', None, post_gd)
    contracts.attach(R.treeanalysis, 'disco_order', None, post_disco)


def _set_cur(ctx, spec, live):
    defects, m = model.snapshot(live)
    if defects:
        raise RuntimeError('bad generated tree %r' % defects)
    Cur.ctx, Cur.spec = ctx, spec
    Cur.by_id = {id(n.ref): n for n in m.nodes()}
    return m


def _try(f, *a, **k):
    try:
        return f(*a, **k)
    except Exception:
        return None


def api_tree(ctx, spec, rng):
    R = ctx.R
    inplace = rng.random() < 0.25
    # the trees that are restructured in place below come from a reader
    # (export, TIGER-XML) in half of the cases: whatever a reader leaves on
    # the nodes besides the tree must not stand in for the token positions
    live = common.live_tree(ctx, spec, rng, via=0.5 if inplace else None)
    m = _set_cur(ctx, spec, live)
    for n in m.nodes():
        _try(R.treeanalysis.gap_degree_node, n.ref)
        _try(R.trees.terminal_blocks, n.ref)
    gd = _try(R.treeanalysis.gap_degree, live)
    exp = model.gapdeg(m)
    # the three notions of discontinuity agree
    buf = io.StringIO()
    live2 = common.live_tree(ctx, spec, rng)
    refused = False
    try:
        with common.captured():
            R.treeoutput.brackets(live2, buf)
    except ValueError:
        refused = True
    except Exception as exc:
        _fail('brackets-writer-other-exception', repr(exc))
    live3 = common.live_tree(ctx, spec, rng)
    g, lex = {}, {}
    R.grammar.extract(live3, g, lex)
    cf = R.grammaranalysis.is_contextfree(g)
    ctx.hook('agreement')
    if not (refused == (exp > 0) == (not cf)):
        _fail('three-notions-disagree', 'set-based gap degree %d, '
              'gap_degree() %r, bracket writer refused=%r, grammar '
              'context-free=%r' % (exp, gd, refused, cf))
    if inplace:
        # same tree objects changed in place, analysed again; before that
        # the tree is looked at (written, numbered, a grammar extracted ...):
        # nothing such a look leaves on the nodes may stand in for the
        # token positions afterwards
        if rng.random() < 0.7:
            from . import pipeline
            what = rng.choice(('extract', 'extract', 'export', 'numbering',
                               'analysis', 'navigation'))
            with common.captured():
                pipeline.look(R, what, live)
            ctx.stratum('looked at before the in-place transformation: '
                        + what)
        try:
            with common.captured():
                how = rng.choice(['root_attach', 'raise', 'raise',
                                  'punctuation_root', 'punctuation_verylow',
                                  'delete'])
                if how in ('punctuation_root', 'punctuation_verylow'):
                    # constituents that were continuous lose a token from
                    # their middle / get one into their middle
                    toks_ = sorted(R.trees.unordered_terminals(live),
                                   key=lambda t: t.data['num'])
                    for t_ in toks_:
                        if rng.random() < 0.35:
                            t_.data['word'] = rng.choice([',', '.', '"'])
                    t2 = getattr(R.transform, how)(live)
                elif how == 'delete':
                    toks_ = sorted(R.trees.unordered_terminals(live),
                                   key=lambda t: t.data['num'])
                    t2 = live
                    if len(toks_) >= 3:
                        R.trees.delete_terminal(
                            live, toks_[rng.randrange(len(toks_))])
                else:
                    t2 = R.transform.root_attach(live)
                    if how == 'raise':
                        t2 = R.transform.negra_mark_heads(t2)
                        t2 = R.transform.boyd_split(t2)
                        t2 = R.transform.raising(t2)
                ctx.stratum('in-place transformation: ' + how)
        except Exception:
            t2 = None
        if t2 is not None:
            m2 = _set_cur(ctx, spec, t2)
            for n in m2.nodes():
                _try(R.treeanalysis.gap_degree_node, n.ref)
                _try(R.trees.terminal_blocks, n.ref)
            _try(R.treeanalysis.gap_degree, t2)
            buf2 = io.StringIO()
            refused2 = False
            exp2 = model.gapdeg(m2)
            try:
                with common.captured():
                    R.treeoutput.brackets(t2, buf2)
            except ValueError:
                refused2 = True
            except Exception:
                pass
            if refused2 != (exp2 > 0):
                _fail('three-notions-disagree-after-transformation',
                      'after an in-place transformation: set-based gap '
                      'degree %d, bracket writer refused=%r' % (exp2, refused2))
            ctx.stratum('re-analysis after in-place transformation')
    return m


def disco_tree(ctx, spec, rng):
    R = ctx.R
    live = common.live_tree(ctx, spec, rng)
    m = _set_cur(ctx, spec, live)
    for mode in ('left', 'rightd'):
        _try(R.treeanalysis.disco_order, live, mode)
    ctx.stratum('disco_order gapdeg=%d' % min(model.gapdeg(m), 3))


def parse_gapdegree(out):
    res = {'trees': None, 'nodes': None, 'per_tree': {}, 'per_node': {}}
    sect = None
    for ln in out.splitlines():
        mm = re.match(r'^(\d+) trees, (\d+) nodes$', ln.strip())
        if mm:
            res['trees'], res['nodes'] = int(mm.group(1)), int(mm.group(2))
        if ln.startswith('Per tree'):
            sect = 'per_tree'
        elif ln.startswith('Per node'):
            sect = 'per_node'
        mm = re.match(r'^Gap degree\s+(\d+):\s+(\d+) (trees|nodes)', ln)
        if mm and sect:
            res[sect][int(mm.group(1))] = int(mm.group(2))
    return res


def expected_stats(bank):
    from collections import Counter
    per_tree, per_node = Counter(), Counter()
    tags = set()
    ntok = 0
    for spec in bank:
        m = model.from_spec(spec['root'])
        degs = [model.gapdeg_node(n) for n in m.nodes() if n.children]
        per_tree[max(degs)] += 1
        per_node.update(degs)
        for t in m.toks():
            tags.add(t.label)
            ntok += 1
    return {'trees': len(bank), 'nodes': sum(per_node.values()),
            'per_tree': dict(per_tree), 'per_node': dict(per_node),
            'tags': len(tags), 'tokens': ntok}


def check_report(ctx, bank, out, task, via):
    exp = expected_stats(bank)
    case = {'kind': 'bank', 'bank': bank, 'task': task, 'via': via}
    if task == 'GapDegree':
        got = parse_gapdegree(out)
        for k in ('trees', 'nodes', 'per_tree', 'per_node'):
            if got[k] != exp[k]:
                ctx.fail('C16:report-GapDegree-' + k, case,
                         '%s: reported %s = %r, file has %r'
                         % (via, k, got[k], exp[k]))
                return
        if sum(got['per_tree'].values()) != got['trees'] or \
                sum(got['per_node'].values()) != got['nodes']:
            ctx.fail('C16:report-GapDegree-sums', case, out[-300:])
    elif task == 'PosTags':
        mm = re.search(r'(\d+) different tags', out)
        if not mm or int(mm.group(1)) != exp['tags']:
            ctx.fail('C16:report-PosTags', case, '%s: %r, file has %d tags'
                     % (via, mm and mm.group(0), exp['tags']))
    elif task == 'SentenceCount':
        mm = re.search(r'(\d+) sentences', out)
        if not mm or int(mm.group(1)) != exp['trees']:
            ctx.fail('C16:report-SentenceCount', case, '%s: %r, file has %d'
                     % (via, mm and mm.group(0), exp['trees']))


def api_bank(ctx, bank, rng):
    R = ctx.R
    # treebank level: the grammar of the whole bank is context-free iff every
    # tree is continuous (whatever the order in which rules were first seen)
    g, lex = {}, {}
    disc = False
    for spec in bank:
        live = common.live_tree(ctx, spec, rng)
        disc = disc or model.gapdeg(model.from_spec(spec['root'])) > 0
        R.grammar.extract(live, g, lex)
    try:
        cf = R.grammaranalysis.is_contextfree(g)
        ctx.hook('bank agreement')
        if cf != (not disc):
            ctx.fail('C16:three-notions-disagree-treebank',
                     {'kind': 'bank', 'bank': bank, 'task': 'agreement',
                      'via': 'API'},
                     'treebank has a discontinuous tree: %r, grammar reported '
                     'context-free: %r' % (disc, cf))
    except Exception as exc:
        ctx.fail('C16:is_contextfree-raises', {'kind': 'bank', 'bank': bank,
                                               'task': 'agreement',
                                               'via': 'API'}, repr(exc))
    for task in ('GapDegree', 'PosTags', 'SentenceCount'):
        inst = getattr(R.treeanalysis, task)()
        try:
            for spec in bank:
                live = common.live_tree(ctx, spec, rng)
                _set_cur(ctx, spec, live)
                inst.run(live)
            with common.captured() as (out, err):
                inst.done()
        except Exception as exc:
            ctx.fail('C16:task-raises-' + task,
                     {'kind': 'bank', 'bank': bank, 'task': task,
                      'via': 'API'}, repr(exc))
            continue
        ctx.hook('api.' + task)
        check_report(ctx, bank, out.getvalue(), task, 'API')
        if task == 'PosTags':
            exp = expected_stats(bank)
            if len(inst.tags) != exp['tokens']:
                ctx.fail('C16:PosTags-token-total',
                         {'kind': 'bank', 'bank': bank, 'task': task,
                          'via': 'API'},
                         'accumulated %d tags, file has %d tokens'
                         % (len(inst.tags), exp['tokens']))


def cli_bank(ctx, bank, rng):
    cont = all(model.gapdeg(model.from_spec(s['root'])) == 0 for s in bank)
    fmt = rng.choice(['export', 'export', 'tigerxml', 'discobrackets']
                     + (['brackets'] if cont else []))
    senc = rng.choice(['utf-8', 'utf-8', 'latin-1'])
    if senc == 'latin-1' or rng.random() < 0.3:
        # the report does not depend on the words, reading the file does
        import copy
        bank = copy.deepcopy(bank)
        for s in bank:
            for t in gen.tokens_of(s['root']):
                if rng.random() < 0.4:
                    t['w'] = rng.choice(['Übung', 'café', 'Ärger', 'ß'])
    sopts = rng.choice([[], ['quiet'], ['quiet', 'continuous'],
                        ['brackets_firstid:3']])
    text = {'export': lambda: codec.export_encode(bank, v4=rng.random() < 0.3),
            'tigerxml': lambda: codec.tigerxml_encode(bank, encoding=senc),
            'discobrackets': lambda: codec.discobrackets_encode(bank),
            'brackets': lambda: codec.brackets_encode(bank)}[fmt]()
    path = common.write(ctx.path('.' + fmt), text, senc)
    ctx.stratum('cli source ' + fmt)
    if senc != 'utf-8':
        ctx.stratum('cli source in latin-1')
    for task in ('GapDegree', 'PosTags', 'SentenceCount'):
        rc, out, err = common.cli(['treeanalysis', path, task,
                                   '--src-format', fmt, '--src-enc', senc]
                                  + (['--src-opts'] + sopts if sopts else []))
        ctx.hook('cli.treeanalysis')
        if rc != 0:
            ctx.fail('C16:cli-exit-status',
                     {'kind': 'bank', 'bank': bank, 'task': task,
                      'via': 'CLI'},
                     'exit %r: %s' % (rc, common.tail(err)))
            continue
        check_report(ctx, bank, out, task, 'CLI')


def make_bank(rng, quick):
    k = rng.randint(1, 4 if quick else 8)
    pools = gen.Pools(cats=rng.choice([gen.CATS, ['S', 'NP', 'VP']]),
                      pos=rng.choice([gen.POS, ['NN', 'VV']]))
    bank = []
    for j in range(k):
        n = rng.choice([1, 2, 3, 5, 8, 12]) if rng.random() < 0.6 \
            else rng.randint(1, 20 if quick else 40)
        n = gen.maybe_long(rng, n, 0.002)
        bank.append(gen.tree(rng, n, pools, max_arity=rng.choice([2, 3, 5]),
                             p_unary=rng.choice([0, 0.15, 0.3]),
                             moves=rng.choice([0, 0, 1, 2, 3, 6, 10]),
                             sid=j + 1))
        if rng.random() < 0.3:
            gen.uproot(rng, bank[-1], 0.3)
        # tags and labels are only counted by the analysis tasks: whatever
        # they look like, they are reported as they are
        gen.spice(rng, bank[-1], ['pos-decorated', 'pos-punct-char',
                                  'pos-apostrophe', 'cat-keyword',
                                  'pos-keyword', 'word-equals-tag',
                                  'cat-apostrophe', 'cat-punct-char'])
    return bank


def shard(ctx):
    install(ctx.R)
    Cur.ctx = ctx
    quick = ctx.quick()
    for i in ctx.indices(ctx.pick(5000, 80000)):
        rng = ctx.rng('bank', i)
        bank = make_bank(rng, quick)
        disc = 0
        for spec in bank:
            m = api_tree(ctx, spec, rng)
            disc = max(disc, model.gapdeg(m))
        api_bank(ctx, bank, rng)
        ctx.case([spec['root'] for spec in bank], nontrivial=disc > 0)
        ctx.stratum('bank max gapdeg=%d' % min(disc, 4))
        if disc >= 2:
            ctx.sample({'bank': [model.show(model.from_spec(s['root']), 'wp')
                                 for s in bank]}, 3)
    for i in ctx.indices(ctx.pick(5000, 80000)):
        rng = ctx.rng('disco', i)
        n = rng.randint(1, 14)
        spec = gen.tree(rng, n, gen.Pools(), max_arity=2,
                        p_unary=rng.choice([0, 0.2]), root_pieces=min(n, rng.choice([1, 2])),
                        moves=rng.choice([0, 1, 2, 4]))
        disco_tree(ctx, spec, rng)
        ctx.case(['disco', spec['root']],
                 nontrivial=model.gapdeg(model.from_spec(spec['root'])) > 0)
    for i in ctx.indices(ctx.pick(64, 1200)):
        rng = ctx.rng('cli', i)
        bank = make_bank(rng, quick)
        cli_bank(ctx, bank, rng)
        ctx.case(['cli', [s['root'] for s in bank]])
        ctx.stratum('cli banks')


def replay(ctx, case):
    install(ctx.R)
    Cur.ctx = ctx
    rng = ctx.rng('replay')
    if case['kind'] == 'tree':
        api_tree(ctx, case['spec'], rng)
        m = model.from_spec(case['spec']['root'])
        if all(len(n.children) <= 2 for n in m.nodes()):
            disco_tree(ctx, case['spec'], rng)
    else:
        api_bank(ctx, case['bank'], rng)
        cli_bank(ctx, case['bank'], rng)

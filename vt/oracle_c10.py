"""C10 -- transition sequences are sound oracles: replaying them rebuilds the
tree (DESIGN 5/C10).  Contracts on the real transitions.topdown / inorder /
gap; the replay automata below see only (sentence, transition names)."""
import re

from . import codec, common, contracts, gen, model, probe

PROPERTY = 'C10'
LEVEL = 'exploration'
RULE = ('head-marked binary trees built through the Tree API (unary nodes at '
        'any depth incl. the root and above tokens, one-token sentences, all '
        'head assignments on small shapes, random ones above) -- continuous '
        'for topdown / inorder (inorder also with arity up to 6), '
        'discontinuous (gap degree to n/2) for gap; trees produced by the '
        'real negra_mark_heads + binarize pipeline as a second stratum; the '
        'plain writer and the real command line on independently encoded '
        'export files; non-trivial = tree with >= 3 tokens and a unary node '
        'or a gap; distinct = distinct (canonical tree with head flags, '
        'system)')
ASSUMPTIONS = ['the automata in this file define "the corresponding '
               'shift-reduce automaton": topdown = bottom-up replay consuming '
               'the sentence right to left (the emitted order is reversed '
               'preorder, as the pinned golden sequence shows); inorder = '
               'SHIFT / PJ-X / REDUCE; gap = stack + deque with SHIFT, GAP, '
               'R-side-X, UNARY-X, where pushing the deque back onto the stack '
               'reverses it, as the pinned golden gap sequence requires; every '
               'gap sequence is additionally replayed with the published '
               'automaton of Coavoux & Crabbe (order kept): a disagreement is '
               'the open known finding '
               'C10:gap-deque-pushed-back-in-reversed-order']
WATCHDOG = {'quick': 600, 'thorough': 3600}
MIN = {'quick': {'distinct': 2000,
                 'hooks': {'transitions.topdown': 1500,
                           'transitions.inorder': 1500,
                           'transitions.gap': 1500,
                           'cli.transitions': 20},
                 'strata': {'cli with a token-editing transformation': 8,
                            'cli with --verbose': 20,
                            'cli with a transformation named twice': 8,
                            'cli with --transformparams': 20,
                            'command line: two readings of one sentence in '
                            'a file': 10,
                            'cli with latin-1 on either side': 10,
                            'cli with a transformation that returns a new '
                            'root': 6,
                            'second call on a changed copy': 1000,
                            'gap: unary root': 100, 'gap: gapdeg>=2': 100,
                            'one-token sentence': 30,
                            'writer: more than 2000 sentences in one file': 2,
                            'topdown: unary root': 100}},
       'thorough': {'distinct': 100000,
                    'hooks': {'transitions.gap': 80000}}}
STEP_BUDGET = 2000000


class Cur(object):
    ctx = None
    case = None


def _fail(mech, detail):
    Cur.ctx.fail('C10:' + mech, Cur.case, detail)


class ReplayError(Exception):
    pass


def _tok(i):
    n = model.MN(num=i)
    return n


def _node(label, kids, side=None):
    n = model.MN(label=label)
    for k in kids:
        n.add(k)
    n.attrs['side'] = side
    n.attrs['first'] = kids[0] if kids else None
    return n


def replay_topdown(n, seq):
    """Bottom-up, sentence consumed from the right end."""
    stack = []
    nxt = n
    for t in seq:
        if t == 'SHIFT':
            if nxt < 1:
                raise ReplayError('SHIFT with empty buffer')
            stack.append(_tok(nxt))
            nxt -= 1
        elif t.startswith('UNARY-'):
            if not stack:
                raise ReplayError('UNARY on empty stack')
            stack.append(_node(t[6:], [stack.pop()]))
        elif t.startswith('BINARY-'):
            m = re.match(r'^BINARY-(LEFT|RIGHT)-(.*)$', t)
            if not m or len(stack) < 2:
                raise ReplayError('bad or unapplicable %r' % t)
            left = stack.pop()
            right = stack.pop()
            stack.append(_node(m.group(2), [left, right], m.group(1)))
        else:
            raise ReplayError('unknown transition %r' % t)
    if nxt != 0:
        raise ReplayError('%d tokens not consumed' % nxt)
    if len(stack) != 1:
        raise ReplayError('%d items left' % len(stack))
    return stack[0]


def replay_inorder(n, seq):
    stack = []
    nxt = 1
    for t in seq:
        if t == 'SHIFT':
            if nxt > n:
                raise ReplayError('SHIFT with empty buffer')
            stack.append(_tok(nxt))
            nxt += 1
        elif t.startswith('PJ-'):
            if not stack or isinstance(stack[-1], tuple):
                raise ReplayError('PJ without a first child')
            stack.append(('PJ', t[3:]))
        elif t == 'REDUCE':
            kids = []
            while stack and not isinstance(stack[-1], tuple):
                kids.append(stack.pop())
            if not stack:
                raise ReplayError('REDUCE without projection')
            lab = stack.pop()[1]
            if not stack or isinstance(stack[-1], tuple):
                raise ReplayError('projection without first child')
            first = stack.pop()
            stack.append(_node(lab, [first] + kids[::-1]))
        else:
            raise ReplayError('unknown transition %r' % t)
    if nxt != n + 1:
        raise ReplayError('%d tokens not consumed' % (n + 1 - nxt))
    if len(stack) != 1 or isinstance(stack[0], tuple):
        raise ReplayError('%d items left' % len(stack))
    return stack[0]


def replay_gap(n, seq, standard=False):
    s, d = [], []       # top first
    nxt = 1

    def flush():
        if standard:
            # Coavoux & Crabbe: S || D, the order of the deque is kept, its
            # top becomes the top of the stack
            s[0:0] = d
            del d[:]
            return
        # what the repository's oracle simulates (and its pinned golden
        # sequence requires): the deque goes back top first, i.e. reversed
        while d:
            s.insert(0, d.pop(0))
    for t in seq:
        if t == 'SHIFT':
            if nxt > n:
                raise ReplayError('SHIFT with empty buffer')
            flush()
            d.insert(0, _tok(nxt))
            nxt += 1
        elif t == 'GAP':
            if not s or not d:
                raise ReplayError('GAP not applicable')
            d.append(s.pop(0))
        elif t.startswith('R-'):
            m = re.match(r'^R-(LEFT|RIGHT)-(.*)$', t)
            if not m or not s or not d:
                raise ReplayError('bad or unapplicable %r' % t)
            s0 = s.pop(0)
            d0 = d.pop(0)
            node = _node(m.group(2), [s0, d0], m.group(1))
            flush()
            d.insert(0, node)
        elif t.startswith('UNARY-'):
            if not d:
                raise ReplayError('UNARY on empty deque')
            d[0] = _node(t[6:], [d[0]])
        else:
            raise ReplayError('unknown transition %r' % t)
    if nxt != n + 1:
        raise ReplayError('%d tokens not consumed' % (n + 1 - nxt))
    if s or len(d) != 1:
        raise ReplayError('%d items left on the stack, %d in the deque'
                          % (len(s), len(d)))
    return d[0]


def compare(built, orig, heads):
    """Parallel walk; returns a description of the first difference."""
    if bool(built.children) != bool(orig.children):
        return 'token vs constituent at %r' % (orig.nums(),)
    if not orig.children:
        return None if built.num == orig.num else 'token %r vs %r' \
            % (built.num, orig.num)
    if built.label != orig.label:
        return 'label %r, tree has %r (yield %r)' % (built.label, orig.label,
                                                     orig.nums())
    bk, ok = built.kids(), orig.kids()
    if len(bk) != len(ok):
        return 'node %s: %d children, tree has %d' % (orig.label, len(bk),
                                                      len(ok))
    for b, o in zip(bk, ok):
        if b.nums() != o.nums():
            return 'node %s: child yields differ %r vs %r' \
                % (orig.label, b.nums(), o.nums())
    if heads and len(ok) == 2 and built.attrs.get('side'):
        first = built.attrs['first']
        o = [x for x in ok if x.nums() == first.nums()][0]
        if bool(o.head) != (built.attrs['side'] == 'LEFT'):
            return 'node %s: side %s but the %s child has head=%r' \
                % (orig.label, built.attrs['side'],
                   'first' if o is ok[0] else 'second', o.head)
    for b, o in zip(bk, ok):
        r = compare(b, o, heads)
        if r:
            return r
    return None


REPLAY = {'topdown': replay_topdown, 'inorder': replay_inorder,
          'gap': replay_gap}


def make_post(system):
    def post(old, result, exc, args, kw):
        if old is None or old[0]:
            return
        before = old[1]
        arity = max(len(x.children) for x in before.nodes())
        cont = model.gapdeg(before) == 0
        if system != 'inorder':
            if arity > 2:
                return
            if any(len(x.children) == 2 and
                   any(k.head is None for k in x.children)
                   for x in before.nodes()):
                return
        if system != 'gap' and not cont:
            return
        if isinstance(exc, probe.StepBudgetExceeded):
            _fail(system + '-does-not-terminate', 'more than %d steps on %s'
                  % (STEP_BUDGET, model.show(before, '')))
            return
        if exc is not None:
            _fail(system + '-raises', '%r on %s' % (exc, model.show(before, '')))
            return
        try:
            terminals, trans = result
            names = [t.pretty_print() for t in trans]
        except Exception as e:
            _fail(system + '-bad-result', repr(e))
            return
        # the oracle reads the tree: the tree the caller holds afterwards is
        # still the tree the sequence has to rebuild
        try:
            d_after, after = model.snapshot(args[0])
            same = not d_after and model.canon(after, 'wplmeh') == \
                model.canon(before, 'wplmeh')
        except Exception as e:
            d_after, same = [repr(e)], False
        Cur.ctx.hook('tree compared before / after the oracle')
        if not same:
            _fail(system + '-changes-the-tree-it-reads', 'before %s | after '
                  '%s' % (model.show(before, 'wpe'),
                          '; '.join(map(str, d_after[:3])) if d_after
                          else model.show(after, 'wpe')))
            return
        want = [(t.word, t.label) for t in before.toks()]
        if [tuple(x) for x in terminals] != want:
            _fail(system + '-sentence', 'returned sentence %r, tokens are %r'
                  % (terminals[:6], want[:6]))
            return
        std_ok = False
        if system == 'gap':
            try:
                std = replay_gap(len(want), names, standard=True)
                std_ok = compare(std, before, True) is None
            except ReplayError:
                std_ok = False
        try:
            built = std if std_ok else REPLAY[system](len(want), names)
        except ReplayError as e:
            mech = system + '-replay-stuck'
            detail = '%s | %s | tree %s' % (e, ' '.join(names),
                                            model.show(before, ''))
            _fail(mech, detail)
            return
        diff = compare(built, before, system != 'inorder')
        if diff:
            # signature of the failure shape
            top_unary = len(before.children) == 1
            lost = len([x for x in before.nodes() if x.children]) - \
                len([x for x in built.nodes() if x.children])
            mech = system + '-replay-differs'
            if lost > 0 and compare_below_top(built, before):
                mech = system + '-top-unary-nodes-missing'
            _fail(mech, '%s | %s | tree %s | rebuilt %s'
                  % (diff, ' '.join(names), model.show(before, ''),
                     model.show(built, '')))
            return
        if system == 'gap':
            if std_ok:
                Cur.ctx.stratum('gap: published automaton replays')
            else:
                # replays only with the reversed-deque automaton
                Cur.ctx.stratum('gap: only the reversed-deque automaton replays')
                _fail('gap-deque-pushed-back-in-reversed-order',
                      'the sequence rebuilds the tree only with an automaton '
                      'that reverses the deque when pushing it back onto the '
                      'stack, not with the GAP automaton of Coavoux & Crabbe '
                      '(S||D keeps the order) | %s | tree %s'
                      % (' '.join(names), model.show(before, '')))
        ntok = len(want)
        unary = any(len(x.children) == 1 for x in before.nodes())
        if len(before.children) == 1:
            Cur.ctx.stratum('%s: unary root' % system)
        if ntok == 1:
            Cur.ctx.stratum('one-token sentence')
        gd = model.gapdeg(before)
        if system == 'gap':
            Cur.ctx.stratum('gap: gapdeg>=2' if gd >= 2 else 'gap: gapdeg=%d' % gd)
        Cur.ctx.case([system, model.canon(before, 'ph')],
                     nontrivial=ntok >= 3 and (unary or gd > 0))
    return post


def compare_below_top(built, before):
    """True when `built` equals `before` minus a chain of unary nodes at the
    top (the shape of the known gap defect)."""
    n = before
    while len(n.children) == 1 and n.children[0].children:
        n = n.children[0]
        if compare(built, n, False) is None:
            return True
    # chain down to a single token
    if not built.children and len(before.toks()) == 1:
        return True
    return False


def pre(args, kw):
    return model.snapshot(args[0])


def install(R):
    for system in ('topdown', 'inorder', 'gap'):
        contracts.attach(R.transitions, system, pre, make_post(system))


def run_system(ctx, system, spec, rng, case):
    import copy
    Cur.ctx, Cur.case = ctx, case
    live = common.live_tree(ctx, spec, rng)
    fn = getattr(ctx.R.transitions, system)
    res = None
    try:
        with common.captured():
            with probe.step_budget(STEP_BUDGET):
                res = fn(live)
            if case.get('again'):
                # a second call in the same process on a (deep) copy of the
                # same nodes whose shape was changed: add or remove a unary
                # node at the top
                live2 = copy.deepcopy(live)
                T = ctx.R.trees
                toks = sorted(T.unordered_terminals(live2),
                              key=lambda t: t.data['num'])
                if case['again'] == 'top':
                    live2 = ctx.R.transform.add_topnode(live2)
                elif case['again'] == 'delete' and len(toks) >= 2:
                    # a binary node loses a child and becomes unary
                    T.delete_terminal(live2, toks[case.get('which', 0)
                                                  % len(toks)])
                elif case['again'] == 'grow' and system == 'gap':
                    # a unary node gets a second child (a new last token)
                    stack = [live2]
                    unary = []
                    while stack:
                        x = stack.pop()
                        if len(x.children) == 1:
                            unary.append(x)
                        stack.extend(x.children)
                    if unary:
                        u = unary[case.get('which', 0) % len(unary)]
                        t = T.Tree(T.make_node_data())
                        t.data.update(word='neu', label='XY', edge='--',
                                      morph='--', lemma='--',
                                      num=len(toks) + 1, head=False)
                        t.parent = u
                        u.children.append(t)
                elif len(live2.children) == 1 and live2.children[0].children:
                    live2 = live2.children[0]
                    live2.parent = None
                    live2.data['head'] = False
                with probe.step_budget(STEP_BUDGET):
                    fn(live2)
                ctx.stratum('second call on a changed copy')
    except BaseException as e:
        if isinstance(e, (KeyboardInterrupt, SystemExit)):
            raise
    if res is not None:
        # the sequence is a value: what happens to the tree afterwards (the
        # caller relabels it, transforms it, throws it away) does not reach it
        try:
            names0 = [t.pretty_print() for t in res[1]]
            sent0 = [tuple(x) for x in res[0]]
        except Exception:
            return res      # judged by the contract
        stack = [live]
        while stack:
            x = stack.pop()
            stack.extend(x.children)
            x.data['label'] = 'Q' + str(x.data.get('label'))
            if x.data.get('word') is not None:
                x.data['word'] = 'q' + x.data['word']
        ctx.hook('sequence read again after the tree was relabelled')
        if [t.pretty_print() for t in res[1]] != names0 or \
                [tuple(x) for x in res[0]] != sent0:
            ctx.fail('C10:%s-sequence-follows-later-changes-of-the-tree'
                     % system, case, 'returned %r, after relabelling the tree '
                     '%r' % (names0[:6], [t.pretty_print()
                                          for t in res[1]][:6]))
    return res


def binary_tree(rng, pools, n, moves, p_unary, root_unary):
    spec = gen.tree(rng, n, pools, max_arity=2, p_unary=p_unary, max_chain=2,
                    moves=moves, root_pieces=1 if root_unary else min(2, n),
                    p_root_unary=0.3 if root_unary else 0)
    gen.spice(rng, spec, ['cat-apostrophe', 'pos-apostrophe', 'cat-keyword',
                          'cat-punct-char', 'pos-punct-char', 'word-unispace',
                          'word-unicode', 'word-keyword', 'word-percent',
                          'cat-decorated', 'cat-digit-last', 'pos-keyword',
                          'word-equals-tag', 'word-python-literal'])
    if rng.random() < 0.3:
        # nodes as tree binarization leaves them: they are part of the input
        # tree and have to be rebuilt like any other node
        for n_ in gen.walk(spec['root']):
            if 'c' in n_ and n_ is not spec['root'] and len(n_['c']) == 2 \
                    and rng.random() < 0.4:
                n_['l'] = '@' + rng.choice(['S', 'NP', 'VP'])
        gen.ATNODES[0] += 1
    gen.assign_heads(rng, spec)
    return spec


def check_file(ctx, path, banks_words, pos, expect_lines, case, enc='utf-8'):
    try:
        text = common.read(path, enc)
    except UnicodeError as e:
        ctx.fail('C10:output-not-in-destination-encoding', case, repr(e))
        return None
    lines = text.split('\n')
    if lines and lines[-1] == '':
        lines = lines[:-1]
    if len(lines) != expect_lines:
        ctx.fail('C10:output-line-count', case, '%d lines for %d trees'
                 % (len(lines), expect_lines))
        return None
    out = []
    for ln, toks in zip(lines, banks_words):
        if ' ||| ' not in ln:
            ctx.fail('C10:output-format', case, 'line %r' % ln[:80])
            return None
        sent, seq = ln.split(' ||| ', 1)
        want = ' '.join(p if pos else w for (w, p) in toks)
        if sent != want:
            ctx.fail('C10:output-sentence', case, 'sentence column %r, '
                     'expected %r (pos=%r)' % (sent, want, pos))
            return None
        out.append(seq.split(' '))
    return out


def run_cli(ctx, rng, i):
    """Real command line: export file -> negra_mark_heads binarize -> system"""
    pools = gen.Pools(edges=['HD', 'NK', 'SB', '--'],
                      pos=gen.POS + (['P+D', 'DET+NOUN', 'A+', '+']
                                     if rng.random() < 0.4 else []))
    system = rng.choice(['topdown', 'inorder', 'gap'])
    bank = []
    for j in range(rng.randint(1, 4)):
        n = rng.randint(1, 9)
        bank.append(gen.tree(rng, n, pools, max_arity=rng.choice([2, 3, 4]),
                             p_unary=0.15,
                             moves=rng.choice([1, 2, 3]) if system == 'gap'
                             else 0, sid=j + 1))
    if rng.random() < 0.3:
        # two readings of one sentence in the same file: same words and tags,
        # another tree
        k_ = rng.randrange(len(bank))
        bank.append(gen.same_sentence(
            rng, bank[k_], pools, sid=len(bank) + 1,
            max_arity=rng.choice([2, 3, 4]), p_unary=0.15,
            moves=rng.choice([1, 2, 3]) if system == 'gap' else 0))
        ctx.stratum('command line: two readings of one sentence in a file')
    pos = rng.random() < 0.4
    sfmt = rng.choice(['export', 'export', 'tigerxml', 'discobrackets']
                      + (['brackets'] if system != 'gap' else []))
    edit = rng.random() < 0.35
    if edit:
        for s_ in bank:
            for t_ in gen.tokens_of(s_['root']):
                if rng.random() < 0.25:
                    t_['w'] = rng.choice([',', '.', '"', '-', '?'])
    senc, denc = rng.choice([('utf-8', 'utf-8'), ('utf-8', 'utf-8'),
                             ('latin-1', 'utf-8'), ('utf-8', 'latin-1'),
                             ('latin-1', 'latin-1')])
    if (senc, denc) != ('utf-8', 'utf-8') or rng.random() < 0.3:
        for s_ in bank:
            for t_ in gen.tokens_of(s_['root']):
                if rng.random() < 0.3 and t_['w'] not in gen.PUNCT:
                    t_['w'] = rng.choice(['Übung', 'café', 'Ärger', 'ß'])
    r = rng.random()
    cli_case(ctx, bank if r >= 0.08 else [], system, pos, sfmt, edit, senc,
             denc, top=rng.choice([0, 0, 0, 0, 1, 1, 2]),
             nohead=0.08 <= r < 0.22,
             existing=rng.random() < 0.4 or r < 0.08, rng=rng)


def cli_case(ctx, bank, system, pos, sfmt='export', edit=False,
             senc='utf-8', denc='utf-8', top=False, nohead=False,
             existing=False, rng=None):
    text = {'export': lambda: codec.export_encode(bank),
            'tigerxml': lambda: codec.tigerxml_encode(bank, encoding=senc),
            'discobrackets': lambda: codec.discobrackets_encode(bank),
            'brackets': lambda: codec.brackets_encode(bank)}[sfmt]()
    src = common.write(ctx.path('.' + sfmt), text, senc)
    dest = ctx.path('.trans')
    if existing:
        # the destination exists already and is longer than what is to come
        common.write(dest, 'Altlast ||| SHIFT SHIFT\n' * 400, denc)
        ctx.stratum('cli: destination file existed')
    args = ['transitions', src, dest, system, '--transform'] + \
        (['punctuation_delete'] if edit else []) + \
        ([] if nohead else ['negra_mark_heads']) + ['binarize'] + \
        (['add_topnode'] * int(top)) \
        + ['--src-format', sfmt, '--src-opts', 'quiet']
    # utf-8 is the documented default of both encodings: named in half of
    # the runs, left to the default in the others
    named = rng is None or rng.random() < 0.5
    if senc != 'utf-8' or named:
        args += ['--src-enc', senc]
    if denc != 'utf-8' or named:
        args += ['--dest-enc', denc]
    else:
        ctx.stratum('cli: destination encoding left to the default')
    if edit:
        # a token-editing step first: the sentence written next to the
        # transitions is the one of the *edited* tree
        from .oracle_c11 import ref_delete
        edited = []
        for s_ in bank:
            m_ = model.from_spec(s_['root'])
            toks_ = m_.toks()
            rem = set(t.num for t in toks_ if t.word in gen.PUNCT)
            if len(rem) != len(toks_):
                ref_delete(m_, rem)
            edited.append({'sid': s_['sid'], 'root': model.to_spec(m_)})
        bank_expected = edited
        ctx.stratum('cli with a token-editing transformation')
    else:
        bank_expected = bank
    if pos:
        args += ['--dest-opts', 'pos']
    cli_case.n += 1
    if cli_case.n % 3 == 0:
        args += ['--verbose']
        ctx.stratum('cli with --verbose')
    if cli_case.n % 4 == 1:
        # a parameter for the transformations: binarization nodes are
        # labelled @ alone (they are removed before the comparison anyway)
        args += ['--transformparams', 'bare_bin_labels']
        ctx.stratum('cli with --transformparams')
    case = {'kind': 'cli', 'bank': bank, 'system': system, 'pos': pos,
            'sfmt': sfmt, 'edit': edit, 'senc': senc, 'denc': denc,
            'top': top, 'nohead': nohead, 'existing': existing}
    bank = bank_expected
    if top:
        # a transformation that returns a new root: the oracle runs on it
        for _ in range(int(top)):
            bank = [{'sid': s_['sid'],
                     'root': {'l': 'TOP', 'e': '--', 'c': [s_['root']]}}
                    for s_ in bank]
        ctx.stratum('cli with a transformation that returns a new root')
        if int(top) > 1:
            # every entry of --transform is applied, also a repeated one
            ctx.stratum('cli with a transformation named twice')
    rc, out, err = common.cli(args)
    ctx.hook('cli.transitions')
    if rc != 0 and nohead:
        # heads were never marked: the run as a whole is refused; had it
        # reported success, every tree would have to have its line
        ctx.stratum('cli run refused (heads not marked)')
        return
    if rc != 0:
        ctx.fail('C10:cli-exit-status', case, 'exit %r: %s'
                 % (rc, common.tail(err)))
        return
    if not bank:
        ctx.stratum('cli: source without sentences')
    words = [[(t['w'], t['p']) for t in sorted(gen.tokens_of(s['root']),
                                               key=lambda t: t['n'])]
             for s in bank]
    seqs = check_file(ctx, dest, words, pos, len(bank), case, denc)
    if seqs is None:
        return
    if (senc, denc) != ('utf-8', 'utf-8'):
        ctx.stratum('cli with latin-1 on either side')
    # replay each line and compare with the spec after an independent
    # un-binarization (remove @-nodes)
    for spec, names in zip(bank, seqs):
        m = model.from_spec(spec['root'])
        built = None
        if system == 'gap':
            # the published automaton first (see ASSUMPTIONS)
            try:
                cand = replay_gap(len(m.toks()), names, standard=True)
                splice_at(cand)
                if compare(cand, m, False) is None:
                    built = cand
            except ReplayError:
                pass
        if built is None:
            try:
                built = REPLAY[system](len(m.toks()), names)
            except ReplayError as e:
                ctx.fail('C10:cli-%s-replay-stuck' % system, case, '%s | %s'
                         % (e, ' '.join(names)))
                continue
            splice_at(built)
            if system == 'gap' and compare(built, m, False) is None:
                ctx.fail('C10:gap-deque-pushed-back-in-reversed-order', case,
                         'command line: the written sequence rebuilds the '
                         'tree only with the reversed-deque automaton | %s'
                         % ' '.join(names))
                continue
        diff = compare(built, m, False)
        if diff:
            mech = 'C10:cli-%s-replay-differs' % system
            if compare_below_top(built, m):
                mech = 'C10:%s-top-unary-nodes-missing' % system
            ctx.fail(mech, case, '%s | %s | tree %s' % (diff, ' '.join(names),
                                                        model.show(m, '')))
    ctx.case(['cli', system, pos, [s['root'] for s in bank]])
    ctx.stratum('cli ' + system)
    ctx.stratum('cli source ' + sfmt)


cli_case.n = 0


def splice_at(m):
    for c in list(m.children):
        splice_at(c)
    for c in list(m.children):
        if c.children and c.label.startswith('@'):
            idx = m.children.index(c)
            m.children.remove(c)
            for g in c.children:
                g.parent = m
                m.children.append(g)


def shard(ctx):
    install(ctx.R)
    pools = gen.Pools()
    # ---- all binary shapes up to 5 tokens with <= 2 unary nodes, all heads ----
    k = 0
    nmax = ctx.pick(4, 5)
    for n in range(1, nmax + 1):
        for shape, used in gen.all_shapes(list(range(1, n + 1)), 2):
            if not _binary(shape):
                continue
            k += 1
            if not ctx.mine(k):
                continue
            rng = ctx.rng('sweep', k)
            base = gen.shape_to_spec(shape, rng, pools)
            specs = list(gen.all_head_assignments(base))
            if len(specs) > 8:
                rng.shuffle(specs)
                specs = specs[:8]
            for spec in specs:
                m = model.from_spec(spec['root'])
                cont = model.gapdeg(m) == 0
                for system in ('topdown', 'inorder', 'gap'):
                    if system != 'gap' and not cont:
                        continue
                    run_system(ctx, system, spec, rng,
                               {'kind': 'tree', 'system': system,
                                'spec': spec})
            ctx.stratum('sweep shapes')
    # ---- random -----------------------------------------------------------------
    for i in ctx.indices(ctx.pick(5000, 700000)):
        rng = ctx.rng('rand', i)
        system = rng.choice(['topdown', 'inorder', 'gap', 'gap'])
        n = rng.choice([1, 1, 2, 3, 4, 6, 9, 14]) if rng.random() < 0.7 \
            else rng.randint(1, 30)
        root_unary = rng.random() < 0.35
        if system == 'gap':
            spec = binary_tree(rng, pools, n, rng.choice([0, 1, 2, 3, 5]),
                               rng.choice([0, 0.15, 0.3]), root_unary)
        elif system == 'inorder' and rng.random() < 0.5:
            spec = gen.tree(rng, n, pools, max_arity=rng.choice([3, 4, 6]),
                            p_unary=rng.choice([0, 0.2]), moves=0,
                            p_root_unary=0.3 if root_unary else 0)
        else:
            spec = binary_tree(rng, pools, n, 0, rng.choice([0, 0.15, 0.3]),
                               root_unary)
        again = rng.choice([None, None, 'top', 'strip', 'delete', 'grow'])
        run_system(ctx, system, spec, rng, {'kind': 'tree', 'system': system,
                                            'spec': spec, 'again': again,
                                            'which': rng.randrange(50)})
        if i < 3:
            ctx.sample({'system': system,
                        'tree': model.show(model.from_spec(spec['root']), '')})
    # ---- pipeline stratum: real negra_mark_heads + binarize first ---------------
    for i in ctx.indices(ctx.pick(1500, 200000)):
        rng = ctx.rng('pipe', i)
        system = rng.choice(['topdown', 'gap'])
        p2 = gen.Pools(edges=['HD', 'NK', 'SB', '--'])
        spec = gen.tree(rng, rng.randint(1, 14), p2,
                        max_arity=rng.choice([3, 4, 6]), p_unary=0.15,
                        moves=rng.choice([1, 2, 4]) if system == 'gap' else 0)
        Cur.ctx = ctx
        Cur.case = {'kind': 'pipe', 'system': system, 'spec': spec}
        live = common.live_tree(ctx, spec, rng)
        try:
            with common.captured():
                live = ctx.R.transform.negra_mark_heads(live)
                live = ctx.R.transform.binarize(live)
                with probe.step_budget(STEP_BUDGET):
                    getattr(ctx.R.transitions, system)(live)
        except BaseException as e:
            if isinstance(e, (KeyboardInterrupt, SystemExit)):
                raise
        ctx.stratum('pipeline ' + system)
    # ---- writer + command line --------------------------------------------------
    for i in ctx.indices(ctx.pick(200, 15000)):
        rng = ctx.rng('writer', i)
        run_writer(ctx, rng, pools, long=i % 100 == 7)
    for i in ctx.indices(ctx.pick(128, 3000)):
        run_cli(ctx, ctx.rng('cli', i), i)


def _binary(shape):
    if isinstance(shape, int):
        return True
    return len(shape) <= 2 and all(_binary(c) for c in shape)


def run_writer(ctx, rng, pools, long=False):
    R = ctx.R
    system = rng.choice(['topdown', 'inorder'])
    # long: more sentences than any block the writer may work in (> 2000)
    specs = [binary_tree(rng, gen.Pools(words=gen.WORDS_ASCII
                                        + gen.WORDS_NONASCII,
                                        pos=gen.POS + ['P+D', 'DET+NOUN',
                                                       'A+', '$,']),
                         rng.randint(1, 2 if long else 8), 0, 0.2,
                         rng.random() < 0.3)
             for _ in range(rng.randint(2001, 2300) if long
                            else rng.randint(1, 4))]
    case = {'kind': 'writer', 'system': system, 'specs': specs,
            'pos': rng.random() < 0.5,
            'enc': rng.choice(['utf-8', 'utf-8', 'latin-1'])}
    try:
        for s_ in specs:
            for t_ in gen.tokens_of(s_['root']):
                (t_['w'] + t_['p']).encode(case['enc'])
    except UnicodeError:
        case['enc'] = 'utf-8'
    writer_case(ctx, case, rng)


def writer_case(ctx, case, rng):
    R = ctx.R
    system, specs, pos = case['system'], case['specs'], case['pos']
    trans = []
    for spec in specs:
        r = run_system(ctx, system, spec, rng, case)
        if r is None:
            return
        trans.append(r)
    dest = ctx.path('.plain')
    if rng.random() < 0.5:
        # the destination exists already (an earlier run, another system)
        common.write(dest, 'Altlast ||| SHIFT SHIFT\n' * rng.randint(1, 3000),
                     case.get('enc', 'utf-8'))
        ctx.stratum('writer: destination file existed')
    try:
        R.transitionoutput.plain(trans, dest, case.get('enc', 'utf-8'),
                                 **({'pos': True} if pos else {}))
    except Exception as e:
        ctx.fail('C10:writer-raises', case, repr(e))
        return
    ctx.hook('transitionoutput.plain')
    words = [[(t['w'], t['p']) for t in sorted(gen.tokens_of(s['root']),
                                               key=lambda t: t['n'])]
             for s in specs]
    seqs = check_file(ctx, dest, words, pos, len(specs), case,
                      case.get('enc', 'utf-8'))
    if case.get('enc', 'utf-8') != 'utf-8':
        ctx.stratum('writer with latin-1')
    if seqs is not None:
        for (sent, seq), names in zip(trans, seqs):
            if [t.pretty_print() for t in seq] != names:
                ctx.fail('C10:writer-sequence', case, 'written %r' % names[:8])
    ctx.case(['writer', system, pos, [s['root'] for s in specs]])
    if len(specs) > 2000:
        ctx.stratum('writer: more than 2000 sentences in one file')


def replay(ctx, case):
    install(ctx.R)
    rng = ctx.rng('replay')
    if case['kind'] in ('tree', 'pipe'):
        if case['kind'] == 'pipe':
            Cur.ctx, Cur.case = ctx, case
            live = common.live_tree(ctx, case['spec'], rng)
            with common.captured():
                live = ctx.R.transform.negra_mark_heads(live)
                live = ctx.R.transform.binarize(live)
                getattr(ctx.R.transitions, case['system'])(live)
        else:
            run_system(ctx, case['system'], case['spec'], rng, case)
    elif case['kind'] == 'cli':
        cli_case(ctx, case['bank'], case['system'], case['pos'],
                 case.get('sfmt', 'export'), case.get('edit', False),
                 case.get('senc', 'utf-8'), case.get('denc', 'utf-8'),
                 case.get('top', False), case.get('nohead', False),
                 case.get('existing', False))
    else:
        writer_case(ctx, case, rng)

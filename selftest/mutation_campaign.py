#!/usr/bin/env python3
"""Mechanical mutation campaign (self-test of the checks, not a check itself).

Small syntactic mutants of the package sources are generated with the
classical operators (relational / boolean / arithmetic operator replacement,
constant +-1, True<->False, `not` removal, statement deletion, argument of
sorted/min/max reversed).  A mutant that the repository's own 116 tests kill is
discarded; a survivor is given to the quick tier of the checks responsible for
the function it sits in (table RESPONSIBLE), in a scratch copy of /repo.

    selftest/mutation_campaign.py --sample 300 [--seed 1] [--files a.py,b.py]
                                  [--out selftest/MUTATION_CAMPAIGN.md]

Survivors that no responsible check reports are listed for review: they are
either equivalent on the property's domain or a gap in a workload.
"""
import argparse
import ast
import json
import os
import random
import re
import shutil
import subprocess
import sys
import tempfile

HERE = os.path.dirname(os.path.abspath(__file__))
VERIF = os.path.dirname(HERE)
REPO = '/repo'
FILES = ['trees/trees.py', 'trees/treeinput.py', 'trees/treeoutput.py',
         'trees/transform.py', 'trees/transformconst.py', 'trees/grammar.py',
         'trees/grammaroutput.py', 'trees/grammarinput.py',
         'trees/grammarconst.py', 'trees/grammaranalysis.py',
         'trees/transitions.py', 'trees/transitionoutput.py',
         'trees/treeanalysis.py', 'trees/misc.py']

# function name (or file) -> checks whose property the code serves
BY_FUNCTION = {
    'root_attach': ['C12', 'C04'], 'boyd_split': ['C05', 'C04'],
    'raising': ['C05', 'C04'], 'negra_mark_heads': ['C15', 'C04'],
    'mark_heads_by_rules': ['C15', 'C04'],
    'punctuation_verylow': ['C13', 'C04'], 'punctuation_root': ['C13', 'C04'],
    'punctuation_symetrify': ['C13', 'C04'],
    'punctuation_delete': ['C11'], 'ptb_delete_traces': ['C11', 'C18'],
    'insert_terminals': ['C11', 'C18'], 'substitute_terminals': ['C11', 'C18'],
    'filter_by_length': ['C11', 'C17'], 'add_topnode': ['C04', 'C10'],
    'binarize': ['C14', 'C04'], '_binarize_tree': ['C14', 'C04', 'C10'],
    'collapse_unary_chains': ['C14', 'C04'],
    '_collapse_unary_chains': ['C14', 'C04'],
    'uncollapse_unary_chains': ['C14', 'C04'],
    '_uncollapse_unary_chains': ['C14', 'C04'],
    'parse_label': ['C20', 'C01', 'C15'], 'format_label': ['C20', 'C14'],
    'get_label': ['C20', 'C02'], 'delete_terminal': ['C11'],
    'replace_chars': ['C02', 'C01'],
    'parse_split_specification': ['C17'],
    'compute_export_numbering': ['C19', 'C02'],
    'get_headpos_by_rule': ['C15', 'C05'],
    'is_contextfree': ['C06', 'C09', 'C16'],
}
BY_FILE = {
    'trees/trees.py': ['C19', 'C02', 'C04', 'C16'],
    'trees/treeinput.py': ['C01', 'C03'],
    'trees/treeoutput.py': ['C02', 'C03', 'C17'],
    'trees/transform.py': ['C04', 'C03', 'C17', 'C11'],
    'trees/transformconst.py': ['C15', 'C05'],
    'trees/grammar.py': ['C06', 'C07', 'C08', 'C09'],
    'trees/grammaroutput.py': ['C09'], 'trees/grammarinput.py': ['C09'],
    'trees/grammarconst.py': ['C09', 'C07'],
    'trees/grammaranalysis.py': ['C06', 'C09'],
    'trees/transitions.py': ['C10'], 'trees/transitionoutput.py': ['C10'],
    'trees/treeanalysis.py': ['C16', 'C06', 'C02'],
    'trees/misc.py': ['C03', 'C18', 'C01', 'C09'],
}

CMP = {ast.Lt: ['<='], ast.LtE: ['<'], ast.Gt: ['>='], ast.GtE: ['>'],
       ast.Eq: ['!='], ast.NotEq: ['=='], ast.In: ['not in'],
       ast.NotIn: ['in'], ast.Is: ['is not'], ast.IsNot: ['is']}
CMP_TXT = {ast.Lt: '<', ast.LtE: '<=', ast.Gt: '>', ast.GtE: '>=',
           ast.Eq: '==', ast.NotEq: '!=', ast.In: 'in', ast.NotIn: 'not in',
           ast.Is: 'is', ast.IsNot: 'is not'}
BIN = {ast.Add: ('+', '-'), ast.Sub: ('-', '+'), ast.Mult: ('*', '+'),
       ast.FloorDiv: ('//', '*'), ast.Mod: ('%', '//')}


def offsets(src):
    lines = src.split('\n')
    starts = [0]
    for ln in lines:
        starts.append(starts[-1] + len(ln.encode('utf-8')) + 1)
    return starts


def pos(starts, lineno, col):
    return starts[lineno - 1] + col


def enclosing(tree):
    """node -> name of the enclosing function"""
    out = {}

    def walk(node, fn):
        for child in ast.iter_child_nodes(node):
            name = fn
            if isinstance(child, (ast.FunctionDef, ast.AsyncFunctionDef)):
                name = child.name if fn is None else fn + '.' + child.name
            out[child] = name
            walk(child, name)
    walk(tree, None)
    return out


def mutants_of(path):
    src = open(os.path.join(REPO, path), encoding='utf-8').read()
    data = src.encode('utf-8')
    tree = ast.parse(src)
    starts = offsets(src)
    fn_of = enclosing(tree)
    out = []

    def add(node, a, b, new, what):
        fn = fn_of.get(node)
        if fn is None:
            fn_name = None
        else:
            fn_name = fn
        if fn_name and fn_name.split('.')[0] in ('add_parser', 'UsageAction',
                                                 '__call__'):
            return
        old = data[a:b].decode('utf-8')
        if old == new:
            return
        out.append({'file': path, 'func': fn_name, 'line': node.lineno,
                    'start': a, 'end': b, 'old': old, 'new': new,
                    'what': what})

    for node in ast.walk(tree):
        if isinstance(node, ast.Compare):
            left = node.left
            for op, right in zip(node.ops, node.comparators):
                a = pos(starts, left.end_lineno, left.end_col_offset)
                b = pos(starts, right.lineno, right.col_offset)
                seg = data[a:b].decode('utf-8')
                txt = CMP_TXT.get(type(op))
                if txt and seg.strip() == txt:
                    for new in CMP[type(op)]:
                        add(node, a, b, seg.replace(txt, new, 1),
                            '%s -> %s' % (txt, new))
                left = right
        elif isinstance(node, ast.BoolOp):
            txt = 'and' if isinstance(node.op, ast.And) else 'or'
            new = 'or' if txt == 'and' else 'and'
            for l, r in zip(node.values, node.values[1:]):
                a = pos(starts, l.end_lineno, l.end_col_offset)
                b = pos(starts, r.lineno, r.col_offset)
                seg = data[a:b].decode('utf-8')
                if re.fullmatch(r'[\s\\()]*%s[\s\\()]*' % txt, seg) and \
                        '(' not in seg and ')' not in seg:
                    add(node, a, b, seg.replace(txt, new, 1),
                        '%s -> %s' % (txt, new))
        elif isinstance(node, ast.BinOp) and type(node.op) in BIN:
            txt, new = BIN[type(node.op)]
            a = pos(starts, node.left.end_lineno, node.left.end_col_offset)
            b = pos(starts, node.right.lineno, node.right.col_offset)
            seg = data[a:b].decode('utf-8')
            if seg.strip() == txt and not isinstance(node.left, ast.Constant) \
                    or (seg.strip() == txt and isinstance(node.left.value
                                                          if isinstance(node.left, ast.Constant) else 0,
                                                          int)):
                if not (isinstance(node.left, ast.Constant) and
                        isinstance(node.left.value, str)) and not (
                        isinstance(node.right, ast.Constant) and
                        isinstance(node.right.value, str) and txt == '%'):
                    add(node, a, b, seg.replace(txt, new, 1),
                        '%s -> %s' % (txt, new))
        elif isinstance(node, ast.Constant) and not isinstance(
                node.value, (str, bytes)) and node.value is not None:
            a = pos(starts, node.lineno, node.col_offset)
            b = pos(starts, node.end_lineno, node.end_col_offset)
            if node.value is True:
                add(node, a, b, 'False', 'True -> False')
            elif node.value is False:
                add(node, a, b, 'True', 'False -> True')
            elif isinstance(node.value, int) and abs(node.value) < 1000:
                add(node, a, b, str(node.value + 1), 'constant + 1')
                if node.value > 0:
                    add(node, a, b, str(node.value - 1), 'constant - 1')
        elif isinstance(node, ast.UnaryOp) and isinstance(node.op, ast.Not):
            a = pos(starts, node.lineno, node.col_offset)
            b = pos(starts, node.operand.lineno, node.operand.col_offset)
            seg = data[a:b].decode('utf-8')
            if seg.strip() == 'not':
                add(node, a, b, '', 'not removed')
        elif isinstance(node, (ast.Assign, ast.AugAssign, ast.Expr)) and \
                node.lineno == node.end_lineno:
            if isinstance(node, ast.Expr) and isinstance(node.value,
                                                         ast.Constant):
                continue        # docstring
            if isinstance(node, ast.Expr) and isinstance(
                    node.value, ast.Call) and isinstance(
                        node.value.func, ast.Name) and \
                    node.value.func.id == 'print':
                continue
            a = pos(starts, node.lineno, node.col_offset)
            b = pos(starts, node.end_lineno, node.end_col_offset)
            add(node, a, b, 'pass', 'statement deleted')
        elif isinstance(node, ast.Subscript) and isinstance(
                node.slice, ast.Slice):
            for part in (node.slice.lower, node.slice.upper):
                if isinstance(part, ast.Name):
                    a = pos(starts, part.lineno, part.col_offset)
                    b = pos(starts, part.end_lineno, part.end_col_offset)
                    add(node, a, b, '%s + 1' % part.id, 'slice bound + 1')
    # drop module-level mutants of constants tables only partly: keep them
    return data, out


def apply(data, m):
    return data[:m['start']] + m['new'].encode('utf-8') + data[m['end']:]


def sh(cmd, **kw):
    return subprocess.run(cmd, stdout=subprocess.PIPE, stderr=subprocess.STDOUT,
                          text=True, **kw)


def responsible(m):
    fn = (m['func'] or '').split('.')[0]
    props = list(BY_FUNCTION.get(fn, []))
    for p in BY_FILE[m['file']]:
        if p not in props:
            props.append(p)
    return props


def main():
    ap = argparse.ArgumentParser()
    ap.add_argument('--sample', type=int, default=200)
    ap.add_argument('--seed', type=int, default=1)
    ap.add_argument('--files', default='')
    ap.add_argument('--out', default=os.path.join(HERE,
                                                  'MUTATION_CAMPAIGN.md'))
    ap.add_argument('--json', default=os.path.join(HERE,
                                                   'mutation_campaign.json'))
    ap.add_argument('--maxchecks', type=int, default=4)
    ap.add_argument('--skip', type=int, default=0,
                    help='leave out the first N of the shuffled list (already '
                         'done in an earlier run with the same seed)')
    args = ap.parse_args()
    files = [f for f in FILES if not args.files or f in args.files.split(',')]
    allm = []
    datas = {}
    for f in files:
        data, ms = mutants_of(f)
        datas[f] = data
        allm.extend(ms)
    rng = random.Random(args.seed)
    rng.shuffle(allm)
    sample = allm[args.skip:args.skip + args.sample]
    print('%d mutants generated, %d sampled' % (len(allm), len(sample)))
    sys.stdout.flush()
    base = '/dev/shm' if os.path.isdir('/dev/shm') else tempfile.gettempdir()
    rows = []
    for k, m in enumerate(sample):
        d = tempfile.mkdtemp(prefix='vt_mc_', dir=base)
        try:
            dst = os.path.join(d, 'repo')
            shutil.copytree(REPO, dst, ignore=shutil.ignore_patterns(
                '.git', '__pycache__', '*.pyc', '.benchmarks', '*.egg-info'))
            with open(os.path.join(dst, m['file']), 'wb') as f:
                f.write(apply(datas[m['file']], m))
            env = dict(os.environ, PYTHONPATH=dst, PYTHONDONTWRITEBYTECODE='1')
            env.pop('TREETOOLS_VERIF', None)
            try:
                t = sh(['/venv/bin/python', '-m', 'pytest', '-x', '-q', '-p',
                        'no:cacheprovider'], cwd=dst, env=env, timeout=300)
                tests = 'pass' if t.returncode == 0 else 'killed'
            except subprocess.TimeoutExpired:
                tests = 'killed'
            verdict, by, mech = tests, '', ''
            if tests == 'pass':
                verdict = 'SURVIVED'
                env2 = dict(os.environ, VT_REPO=dst,
                            VT_EVIDENCE_DIR=os.path.join(d, 'ev'),
                            VT_REPLAY_DIR=os.path.join(d, 'rp'))
                for p in responsible(m)[:args.maxchecks]:
                    c = sh([os.path.join(VERIF, 'vcheck'), p, 'quick'],
                           env=env2)
                    if c.returncode == 1:
                        verdict, by = 'caught', p
                        ml = [ln.strip()[11:] for ln in c.stdout.splitlines()
                              if ln.strip().startswith('mechanism:')]
                        mech = ml[0] if ml else ''
                        break
                    if c.returncode == 2:
                        verdict, by = 'inconclusive', p
                        break
            rows.append(dict(m, verdict=verdict, by=by, mechanism=mech,
                             checks=responsible(m)[:args.maxchecks]))
            print('%4d %-13s %-26s %-22s %4d  %-18s %s %s' % (
                k, verdict, m['file'], (m['func'] or '-')[:22], m['line'],
                m['what'], by, mech[:60]))
            sys.stdout.flush()
        finally:
            shutil.rmtree(d, ignore_errors=True)
        with open(args.json, 'w') as f:
            json.dump(rows, f, indent=1)
    killed = sum(1 for r in rows if r['verdict'] == 'killed')
    caught = sum(1 for r in rows if r['verdict'] == 'caught')
    inc = sum(1 for r in rows if r['verdict'] == 'inconclusive')
    surv = [r for r in rows if r['verdict'] == 'SURVIVED']
    with open(args.out, 'w') as f:
        f.write('# Mechanical mutation campaign\n\n%d mutants sampled (seed %d) '
                'out of %d generated; %d killed by the repository\'s own '
                'tests; of the %d that pass the tests: %d reported by a '
                'responsible quick check, %d made a check inconclusive, %d '
                'reported by none (reviewed below).\n\n'
                % (len(rows), args.seed, len(allm), killed,
                   len(rows) - killed, caught, inc, len(surv)))
        f.write('| file | function | line | mutation | old | verdict | by | '
                'mechanism |\n|---|---|---|---|---|---|---|---|\n')
        for r in rows:
            if r['verdict'] == 'killed':
                continue
            f.write('| %s | %s | %d | %s | `%s` | %s | %s | %s |\n' % (
                r['file'], r['func'] or '-', r['line'], r['what'],
                r['old'].replace('|', '/').replace('\n', ' ')[:40],
                r['verdict'], r['by'], r['mechanism'].replace('|', '/')))
    print('killed by tests %d, caught %d, inconclusive %d, survived %d'
          % (killed, caught, inc, len(surv)))


if __name__ == '__main__':
    main()

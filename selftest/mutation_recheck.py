#!/usr/bin/env python3
"""Re-run selected entries of a campaign JSON against the current /repo:
entries whose verdict is 'inconclusive', or that were reported as
C14:binarize-new-node-label although they do not sit in _binarize_tree (the
campaign ran across the repair of defect 28 and those scratch copies lacked the
repair).  The mutant is located again in the current source by function,
operator and original text.

    selftest/mutation_recheck.py selftest/mutation_campaign_2.json
"""
import json
import os
import shutil
import subprocess
import sys
import tempfile

sys.path.insert(0, os.path.dirname(os.path.abspath(__file__)))
import mutation_campaign as mc   # noqa: E402


def main():
    path = sys.argv[1]
    rows = json.load(open(path))
    cache = {}
    for r in rows:
        sus = r['verdict'] == 'inconclusive' or (
            r['file'] == 'trees/transform.py' and r['verdict'] == 'caught'
            and 'binarize-new-node-label' in r['mechanism']
            and (r['func'] or '') != '_binarize_tree')
        if not sus:
            continue
        if r['file'] not in cache:
            cache[r['file']] = mc.mutants_of(r['file'])
        data, ms = cache[r['file']]
        cands = [m for m in ms if m['func'] == r['func'] and
                 m['what'] == r['what'] and m['old'] == r['old'] and
                 m['new'] == r['new']]
        if not cands:
            print('cannot locate', r['file'], r['func'], r['line'], r['what'])
            continue
        m = min(cands, key=lambda m: abs(m['line'] - r['line']))
        d = tempfile.mkdtemp(prefix='vt_mcr_', dir='/dev/shm')
        try:
            dst = os.path.join(d, 'repo')
            shutil.copytree(mc.REPO, dst, ignore=shutil.ignore_patterns(
                '.git', '__pycache__', '*.pyc'))
            with open(os.path.join(dst, m['file']), 'wb') as f:
                f.write(mc.apply(data, m))
            env = dict(os.environ, PYTHONPATH=dst, PYTHONDONTWRITEBYTECODE='1')
            env.pop('TREETOOLS_VERIF', None)
            try:
                t = mc.sh(['/venv/bin/python', '-m', 'pytest', '-x', '-q',
                           '-p', 'no:cacheprovider'], cwd=dst, env=env,
                          timeout=300)
                tests = t.returncode == 0
            except subprocess.TimeoutExpired:
                tests = False
            verdict, by, mech = ('SURVIVED', '', '') if tests else \
                ('killed', '', '')
            if tests:
                env2 = dict(os.environ, VT_REPO=dst,
                            VT_EVIDENCE_DIR=os.path.join(d, 'ev'),
                            VT_REPLAY_DIR=os.path.join(d, 'rp'))
                for p in mc.responsible(m)[:4]:
                    c = mc.sh([os.path.join(mc.VERIF, 'vcheck'), p, 'quick'],
                              env=env2)
                    if c.returncode == 1:
                        ml = [ln.strip()[11:] for ln in c.stdout.splitlines()
                              if ln.strip().startswith('mechanism:')]
                        verdict, by, mech = 'caught', p, ml[0] if ml else ''
                        break
                    if c.returncode == 2:
                        verdict, by = 'inconclusive', p
                        break
            print('%-26s %-26s %4d %-18s: %s -> %s %s %s' % (
                r['file'], r['func'], m['line'], r['what'], r['verdict'],
                verdict, by, mech))
            r.update(verdict=verdict, by=by, mechanism=mech, line=m['line'],
                     rechecked=True)
        finally:
            shutil.rmtree(d, ignore_errors=True)
    json.dump(rows, open(path, 'w'), indent=1)


if __name__ == '__main__':
    main()

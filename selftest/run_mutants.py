#!/usr/bin/env python3
"""Self-test of the monitors (DESIGN 8.2): apply each hand-written mutant to a
scratch copy of /repo, confirm the pinned test-suite still passes there, point
the quick check at the copy (VT_REPO) and require exit 1.

    selftest/run_mutants.py [-k substring] [--tier quick] [--no-tests]

Mutants live in selftest/mutants.json:
    {"id":..., "property":..., "file":..., "old":..., "new":..., "why":...}
Results are appended to selftest/RESULTS.md by --write.
"""
import argparse
import json
import os
import shutil
import subprocess
import sys
import tempfile

HERE = os.path.dirname(os.path.abspath(__file__))
VERIF = os.path.dirname(HERE)
REPO = '/repo'


def sh(cmd, **kw):
    return subprocess.run(cmd, stdout=subprocess.PIPE, stderr=subprocess.STDOUT,
                          text=True, **kw)


def main():
    ap = argparse.ArgumentParser()
    ap.add_argument('-k', default='')
    ap.add_argument('--tier', default='quick')
    ap.add_argument('--no-tests', action='store_true')
    ap.add_argument('--write', action='store_true')
    ap.add_argument('--seed', default='0')
    args = ap.parse_args()
    with open(os.path.join(HERE, 'mutants.json')) as f:
        mutants = json.load(f)
    base = '/dev/shm' if os.path.isdir('/dev/shm') else tempfile.gettempdir()
    rows = []
    for mu in mutants:
        if args.k and args.k not in mu['id'] and args.k != mu['property']:
            continue
        d = tempfile.mkdtemp(prefix='vt_mut_', dir=base)
        try:
            dst = os.path.join(d, 'repo')
            shutil.copytree(REPO, dst, ignore=shutil.ignore_patterns(
                '.git', '__pycache__', '*.pyc', '.benchmarks'))
            path = os.path.join(dst, mu['file'])
            with open(path) as f:
                src = f.read()
            if src.count(mu['old']) != 1:
                rows.append((mu, 'STALE', 'old text occurs %d times'
                             % src.count(mu['old'])))
                print('%-40s STALE (%d matches)' % (mu['id'],
                                                   src.count(mu['old'])))
                continue
            src = src.replace(mu['old'], mu['new'])
            for old2, new2 in mu.get('extra', []):
                if src.count(old2) != 1:
                    print('%-40s STALE extra' % mu['id'])
                src = src.replace(old2, new2)
            with open(path, 'w') as f:
                f.write(src)
            tests = 'skipped'
            if not args.no_tests:
                r = sh(['/venv/bin/python', '-m', 'pytest', '-q', '-x',
                        '-p', 'no:cacheprovider', '--timeout=900'], cwd=dst,
                       env=dict(os.environ, PYTHONDONTWRITEBYTECODE='1'))
                last = r.stdout.strip().splitlines()[-1] if r.stdout.strip() \
                    else ''
                tests = 'pass' if r.returncode == 0 else 'FAIL: ' + last
            env = dict(os.environ, VT_REPO=dst, VERIF_SEED=args.seed,
                       VT_EVIDENCE_DIR=os.path.join(d, 'evidence'),
                       VT_REPLAY_DIR=os.path.join(d, 'replays'))
            r = sh([os.path.join(VERIF, 'vcheck'), mu['property'], args.tier],
                   env=env)
            mech = [ln.strip() for ln in r.stdout.splitlines()
                    if ln.strip().startswith('mechanism:')]
            verdict = {0: 'MISSED', 1: 'caught', 2: 'INCONCLUSIVE'}.get(
                r.returncode, 'rc=%d' % r.returncode)
            rows.append((mu, verdict, tests, mech[:2]))
            print('%-40s %-12s tests=%s %s' % (mu['id'], verdict, tests,
                                               mech[:1]))
            if verdict != 'caught':
                print(r.stdout[-800:])
        finally:
            shutil.rmtree(d, ignore_errors=True)
    # restore evidence of the real tree is the caller's job (checks rewrite it)
    if args.write:
        with open(os.path.join(HERE, 'RESULTS.md'), 'w') as f:
            f.write('# Self-test kill matrix (tier %s, seed %s)\n\n'
                    '| mutant | property | tests | verdict | first mechanism |\n'
                    '|---|---|---|---|---|\n' % (args.tier, args.seed))
            for row in rows:
                mu, verdict = row[0], row[1]
                tests = row[2] if len(row) > 2 else ''
                mech = '; '.join(row[3]) if len(row) > 3 else ''
                f.write('| %s | %s | %s | %s | %s |\n'
                        % (mu['id'], mu['property'], tests, verdict,
                           mech.replace('|', '/')))
    bad = [r for r in rows if r[1] != 'caught']
    return 1 if bad else 0


if __name__ == '__main__':
    sys.exit(main())

#!/usr/bin/env python3
"""Attach the manual review to the survivors of selftest/mutation_campaign.py
(selftest/mutation_campaign.json -> selftest/MUTATION_CAMPAIGN.md).  A rule is
(file, function prefix, line range or None, reason); a survivor no rule covers
is printed as UNREVIEWED."""
import json
import os

HERE = os.path.dirname(os.path.abspath(__file__))
P = 'progress / usage / warning text on stderr or stdout only'
E = 'only reachable on ill-formed input (error path or bound of a sanity check)'
S = ('slash annotation of ptb_delete_traces: C11 states nothing about it beyond '
     'the generic clauses (ASSUMPTIONS of C11); its determinism is C18\'s')
Y = ('punctuation_symetrify: C13 only constrains what may move and where to; '
     'moving fewer or other *paired-punctuation* tokens into a constituent that '
     'holds a paired-punctuation token satisfies the statement')
T = 'number of tab characters between export fields (still >= 1): decoding unchanged'
Q = 'equivalent: the value is recomputed / already equal / never read afterwards'
L = ('names of Markov binarization symbols / tie-breaking of the optimal order: '
     'C07 and C08 constrain chains and counts, not label content or optimality')
F = 'a field of a newly created node that no property constrains'
N = 'bound / branch of a sanity check that well-formed input never reaches'
RULES = [
    ('trees/treeinput.py', 'export', (425, 432), Q + ' (variable never read)'),
    ('trees/treeinput.py', 'export', (468, 476), Q + ' (the counter is set '
     'again at the next #BOS)'),
    ('trees/treeinput.py', 'export_parse_line', None, E),
    ('trees/treeinput.py', 'export_build_tree', None, Q + ' (a new Tree '
     'already has an empty child list)'),
    ('trees/treeinput.py', 'tigerxml_build_tree', (70, 80),
     F + ' (lemma / morph of the VROOT node the reader adds)'),
    ('trees/treeinput.py', 'tigerxml', (120, 130), P),
    ('trees/treeinput.py', 'brackets', (280, 292), E),
    ('trees/grammar.py', 'extract', (295, 299), Q + ' (a longer list of '
     'counters, the extra cells are never used)'),
    ('trees/grammar.py', 'run', None, P + ' / ' + Q),
    ('trees/grammar.py', 'binarize_rule', (140, 150), Q + ' (no two adjacent '
     'equal values in canonical rules)'),
    ('trees/trees.py', 'make_node_data_fill', None,
     F + ' (defaults of fields that the writers replace by -- when absent)'),
    ('trees/trees.py', '__str__', None, 'debug representation of a Label'),
    ('trees/trees.py', 'parse_label', (349, 361), Q + ' (the guarded length is '
     'never 0 there; a one-character function after the separator is now in '
     'the structured labels of C20)'),
    ('trees/transform.py', '_uncollapse_unary_chains', (810, 820), Q + ' (a + '
     'at position 0 of a label does not occur)'),
    ('trees/transform.py', 'mark_heads_by_rules', (700, 706), Q + ' (a '
     'constituent always has children)'),
    ('trees/transform.py', 'punctuation_root', (455, 465), Q + ' (the loop '
     'below re-checks the only-child condition at move time)'),
    ('trees/transform.py', 'boyd_split', (119, 125), N),
    ('trees/misc.py', 'options_dict', None, Q + ' (a colon at position 0 does '
     'not occur; flags are only tested with `in`)'),
    ('trees/treeoutput.py', 'export_tabs', None, T),
    ('trees/grammaroutput.py', 'pmcfg', (88, 96), Q + ' (overwritten by the '
     'next statement)'),
    ('trees/grammaroutput.py', 'rcg', (144, 154), Q + ' (overwritten by the '
     'next statement) / variable index of a lexical clause'),
    ('trees/treeanalysis.py', 'gap_type', None, 'helper that no property and '
     'no command uses'),
    ('trees/grammarinput.py', '-', None, 'usage table'),
    ('trees/transform.py', 'run', None, P),
    ('trees/transitions.py', 'run', None, P),
    ('trees/treeanalysis.py', 'run', None, P),
    ('trees/treeanalysis.py', '-', None, P),
    ('trees/misc.py', 'get_doc', None, P),
    ('trees/treeoutput.py', 'parse_split_specification', (40, 53), P),
    ('trees/treeoutput.py', 'export_format', None, T),
    ('trees/treeinput.py', 'export', (450, 460), E),
    ('trees/treeinput.py', 'tigerxml_build_tree', (60, 68), E),
    ('trees/treeinput.py', 'brackets', (205, 220), E),
    ('trees/treeinput.py', 'brackets', (330, 340), E),
    ('trees/treeinput.py', 'brackets', (235, 238),
     F + ' (morph of a POS-less token; the bracket formats carry no morph)'),
    ('trees/treeinput.py', 'bracket_lexer', None, Q + ' (internal assertion, '
     'trailing white space at the end of the file, close() of a buffer)'),
    ('trees/transform.py', 'ptb_delete_traces', (495, 640), S),
    ('trees/transform.py', 'punctuation_symetrify', None, Y),
    ('trees/transitions.py', 'gap', None, Q + ' (the guarded state does not '
     'occur: the deque is non-empty there / the stack is non-empty whenever '
     'the deque is)'),
    ('trees/transitions.py', 'topdown', (36, 38), E),
    ('trees/grammar.py', 'next', None, L),
    ('trees/grammar.py', 'reordering_optimal', None, L),
    ('trees/grammar.py', 'linsub', (100, 104), Q + ' (positions inside an '
     'element are recomputed by the following linsub call)'),
    ('trees/grammar.py', 'binarize_rule', (155, 160), Q + ' (no two adjacent '
     'equal values in canonical rules)'),
    ('trees/trees.py', 'parse_label', (330, 334), Q + ' (a separator at '
     'position 0: parts differ, formatting gives the same string)'),
    ('trees/transformconst.py', 'get_headpos_by_rule', (82, 88),
     'head rule with an empty candidate list: nothing is listed, C15 judges '
     'only the case of exactly one listed child'),
    ('trees/transform.py', 'boyd_split', (124, 126), Q + ' (block nodes are '
     'deep copies of the split node, head flag included)'),
    ('trees/transform.py', 'add_topnode', (184, 188), F),
    ('trees/treeanalysis.py', 'done', (110, 125),
     'percentage column of the report: C16 speaks of counts and totals'),
    ('trees/grammaroutput.py', 'rcg', (144, 150),
     'variable index inside a lexical clause under lex_in_grammar: the word / '
     'tag counts stay recoverable, which is all C09 asks of that mode'),
]


def reason(r):
    for f, fn, rng, why in RULES:
        if r['file'] != f:
            continue
        name = r['func'] or '-'
        if not name.startswith(fn):
            continue
        if rng and not (rng[0] <= r['line'] <= rng[1]):
            continue
        return why
    return 'UNREVIEWED'


def main():
    rows = []
    for name in ('mutation_campaign.json', 'mutation_campaign_2.json'):
        f = os.path.join(HERE, name)
        if os.path.exists(f):
            rows += json.load(open(f))
    killed = sum(1 for r in rows if r['verdict'] == 'killed')
    caught = [r for r in rows if r['verdict'] == 'caught']
    inc = [r for r in rows if r['verdict'] == 'inconclusive']
    surv = [r for r in rows if r['verdict'] == 'SURVIVED']
    out = ['# Mechanical mutation campaign (selftest/mutation_campaign.py)', '',
           '%d mutants sampled from the operators of the tool over all package '
           'sources; %d are killed by the repository\'s own 116 tests.  Of the '
           '%d that pass the tests, %d are reported by a quick check '
           'responsible for the mutated function, %d made a check inconclusive '
           '(see below) and %d are reported by none; every one of those was '
           'read and is classified below (none is a violation of a property '
           'as stated; UNREVIEWED must not appear).'
           % (len(rows), killed, len(rows) - killed, len(caught), len(inc),
              len(surv)), '',
           '## Not reported (reviewed)', '',
           '| file | function | line | mutation | original text | why it is '
           'not a violation |', '|---|---|---|---|---|---|']
    bad = 0
    for r in surv + inc:
        why = reason(r)
        if r['verdict'] == 'inconclusive':
            why = ('made C16 inconclusive (NameError inside the task): C16 '
                   'now reports a raising task as a violation')
        bad += why == 'UNREVIEWED'
        out.append('| %s | %s | %d | %s | `%s` | %s |' % (
            r['file'], r['func'] or '-', r['line'], r['what'],
            r['old'].replace('|', '/').replace('\n', ' ')[:40], why))
    out += ['', '## Reported', '',
            '| file | function | line | mutation | check | mechanism |',
            '|---|---|---|---|---|---|']
    for r in caught:
        out.append('| %s | %s | %d | %s | %s | %s |' % (
            r['file'], r['func'] or '-', r['line'], r['what'], r['by'],
            r['mechanism'].replace('|', '/')))
    open(os.path.join(HERE, 'MUTATION_CAMPAIGN.md'), 'w').write(
        '\n'.join(out) + '\n')
    print('survivors %d, unreviewed %d' % (len(surv), bad))
    for r in surv:
        if reason(r) == 'UNREVIEWED':
            print('  UNREVIEWED', r['file'], r['func'], r['line'], r['what'],
                  repr(r['old'][:50]))


if __name__ == '__main__':
    main()

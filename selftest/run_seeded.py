#!/usr/bin/env python3
"""Regression over the independently seeded changes (/verif/seeded/<id>/):
apply each patch.diff to a scratch copy of /repo and require that the quick
check of the property it breaks reports it (exit 1).

    selftest/run_seeded.py [-k substring] [--tier quick] [--write]
"""
import argparse
import glob
import json
import os
import shutil
import subprocess
import sys
import tempfile

HERE = os.path.dirname(os.path.abspath(__file__))
VERIF = os.path.dirname(HERE)


def sh(cmd, **kw):
    return subprocess.run(cmd, stdout=subprocess.PIPE, stderr=subprocess.STDOUT,
                          text=True, **kw)


def main():
    ap = argparse.ArgumentParser()
    ap.add_argument('-k', default='')
    ap.add_argument('--tier', default='quick')
    ap.add_argument('--write', action='store_true')
    args = ap.parse_args()
    base = '/dev/shm' if os.path.isdir('/dev/shm') else tempfile.gettempdir()
    rows = []
    for meta in sorted(glob.glob(os.path.join(VERIF, 'seeded', '*', 'meta.json'))):
        m = json.load(open(meta))
        if args.k and args.k not in m['id'] and args.k != m['breaks_property']:
            continue
        if 'unreported' in m:
            # recorded as out of reach (see meta.json / DESIGN.md §8)
            rows.append((m['id'], m['breaks_property'], 'not reported '
                         '(by decision)', ''))
            continue
        d = tempfile.mkdtemp(prefix='vt_seedreg_', dir=base)
        try:
            dst = os.path.join(d, 'repo')
            shutil.copytree('/repo', dst, ignore=shutil.ignore_patterns(
                '.git', '__pycache__', '*.pyc', '.benchmarks', '*.egg-info'))
            r = sh(['patch', '-p1', '-i', os.path.join(os.path.dirname(meta),
                                                       'patch.diff')], cwd=dst)
            if r.returncode != 0:
                rows.append((m['id'], m['breaks_property'], 'PATCH-STALE', ''))
                print('%-14s %s PATCH-STALE' % (m['id'], m['breaks_property']))
                continue
            env = dict(os.environ, VT_REPO=dst,
                       VT_EVIDENCE_DIR=os.path.join(d, 'evidence'),
                       VT_REPLAY_DIR=os.path.join(d, 'replays'))
            verdict, mech, prop = 'MISSED', [], m['breaks_property']
            # a change may break several properties: one report is enough
            for p in m.get('breaks_properties', [m['breaks_property']]):
                c = sh([os.path.join(VERIF, 'vcheck'), p, args.tier], env=env)
                v = {0: 'MISSED', 1: 'caught', 2: 'INCONCLUSIVE'}.get(
                    c.returncode, 'rc=%d' % c.returncode)
                if v == 'caught' or verdict == 'MISSED':
                    verdict, prop = v, p
                    mech = [ln.strip()[11:] for ln in c.stdout.splitlines()
                            if ln.strip().startswith('mechanism:')]
                if v == 'caught':
                    break
            rows.append((m['id'], prop, verdict, mech[0] if mech else ''))
            print('%-14s %s %-12s %s' % (m['id'], prop, verdict, mech[:1]))
        finally:
            shutil.rmtree(d, ignore_errors=True)
    if args.write:
        with open(os.path.join(HERE, 'SEEDED_RESULTS.md'), 'w') as f:
            f.write('# Seeded changes vs. the %s tier\n\n| change | property | '
                    'verdict | first mechanism |\n|---|---|---|---|\n' % args.tier)
            for r in rows:
                f.write('| %s | %s | %s | %s |\n' % r)
    return 1 if [r for r in rows if r[2] not in ('caught', 'not reported '
                                                  '(by decision)')] else 0


if __name__ == '__main__':
    sys.exit(main())

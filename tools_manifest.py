#!/usr/bin/env python3
"""Regenerate MANIFEST.json from the table below (keeps it valid at all times)."""
import json, os
HERE = os.path.dirname(os.path.abspath(__file__))
ALL = ['C%02d' % i for i in range(1, 21)]
TECH = {
 'C19': 'runtime contracts (icontract) on the real navigation functions + set-based reference model; exhaustive small-shape sweep + random workload',
}
TEXT = {
 'C19': 'every evaluation of children/terminals/preorder/postorder/siblings/lca/dominance/levels/export numbering made during the workload (incl. the internal ones) is compared with a set-based model; all unordered tree shapes up to 5 (quick) / 6 (thorough) tokens with shuffled child lists plus random trees to 40 tokens. Held on the executions observed, not a proof.',
}
NOTE = 'trusted: vt/model.py (independent set-based tree model), the spec generators; the repository is only executed and observed. Hooks are attached from outside (no source change).'
def main():
    claimed = [p for p in ALL if p in TECH]
    man = {
      'version': 1,
      'setup_cmd': './setup.sh',
      'hooks': {'guard': 'TREETOOLS_VERIF',
                'enable': 'no source hooks: vt/contracts.py attaches contracts/monitors to the imported repository modules at run time (setattr on module attributes, generator wrappers, recording streams, sys.monitoring, audit hook) and refuses to do so unless TREETOOLS_VERIF=1; ./vcheck sets it. Checks import the package from /repo\'s working tree ($VT_REPO overrides for self-tests).',
                'baseline_off_cmd': 'cd /repo && /venv/bin/python -m pytest -ra -q -p no:cacheprovider --timeout=900 --continue-on-collection-errors',
                'source_commits': [], 'add_only': True},
      'engines': [{'name': 'vt', 'path': 'vt/', 'serves_properties': claimed,
                   'kind_free_text': 'runtime monitoring: contracts on real functions, generator/stream monitors, reference-model oracles, offline log checkers, sharded seeded workloads'}],
      'checks': [],
      'not_applicable': [],
      'notes': 'exit 0 held / 1 VIOLATION / 2 INCONCLUSIVE (never folded). See DESIGN.md.'}
    for p in claimed:
        man['checks'].append({
          'property_id': p,
          'quick_cmd': './vcheck %s quick' % p,
          'thorough_cmd': './vcheck %s thorough' % p,
          'evidence_file': 'evidence/%s.json' % p,
          'replay_cmd_template': './vcheck %s --replay {path}' % p,
          'engine': 'vt',
          'level_claimed': {'category': 'exploration', 'text': TEXT[p], 'design_ref': 'DESIGN.md 5/%s' % p},
          'level_note': NOTE,
          'technique': TECH[p]})
    for p in ALL:
        if p not in claimed:
            man['not_applicable'].append({'property_id': p, 'reason': 'check under construction in this round (runtime monitor planned in DESIGN.md 5/%s); not claimed until it runs clean' % p})
    with open(os.path.join(HERE, 'MANIFEST.json'), 'w') as f:
        json.dump(man, f, indent=1)
        f.write('\n')
if __name__ == '__main__':
    main()

#!/usr/bin/env python3
"""Regenerate MANIFEST.json from the table below (keeps it valid at all times)."""
import json, os
HERE = os.path.dirname(os.path.abspath(__file__))
ALL = ['C%02d' % i for i in range(1, 21)]
TECH = {
 'C01': 'generator monitors on the four real readers (every yielded tree snapshot), sys.monitoring line probe on the bracket automaton locals, independent encoders, exhaustive bracket token-class sweep judged by an independent scanner',
 'C02': 'recording stream on every writer call (_begin / tree / _end) decoded by independent format decoders; all 2^11 option subsets + random workload',
 'C03': 'black-box monitoring of real `treetools transform` processes (exit status + destination files) against independent encoders/decoders: all 20 format pairs, chains, own-reader idempotence, encodings, gzip, directory mode',
 'C09': 'files written by the real grammar writers and by real `treetools grammar` processes decoded by independent PMCFG / RCG / LoPar decoders; RCG additionally through the tool\'s own reader',
 'C17': 'runtime contract on parse_split_specification vs integer reference (exhaustive spec x size sweep) + exactly-once/order/framing checker over the part files written by real CLI processes',
 'C18': 'offline checker over recorded session logs (same operation => same output at every position and in fresh processes under several hash seeds), additivity checks, global-state snapshots (H6) and audit-hook file log (H5)',
 'C04': 'generic runtime contract (OLD snapshot -> well-formedness, token sequence, constituent accounting) on all twelve structural transformations, driven by sequences from a prerequisite automaton',
 'C10': 'runtime contracts on topdown/inorder/gap + independent replay automata (sentence + transition names only); logical step budget via sys.monitoring; writer and real CLI subprocesses',
 'C11': 'runtime contracts with OLD snapshots on the token-editing transformations and trees.delete_terminal vs reference semantics over the token list; generated terminal files',
 'C13': 'runtime contracts with OLD parent maps on the three punctuation re-attachments: state predicates on the result + frame condition; placement sweep + random workload',
 'C14': 'runtime contracts with OLD snapshots on binarize/collapse/uncollapse: arity bound, @-label rule, splice-out inverse, rejection of unmarked trees, collapse reference and uncollapse inverse',
 'C15': 'runtime contracts on negra_mark_heads/mark_heads_by_rules: exactly-one-head invariant, HD/NK/leftmost rule from the snapshot edges, single-listed-child rule over both presets, rejection of invalid configurations',
 'C05': 'runtime contracts with OLD snapshots on the real boyd_split/raising + set-based recursive reference model; shape x head-assignment sweep + random workload',
 'C06': 'runtime contract on the real grammar.extract (count delta vs set-based per-node rule, linearization re-applied to the child blocks); random treebank workload',
 'C07': 'runtime contracts on binarize_rule/binarize/reordering_optimal with a spy on the label generators; symbolic yield evaluation of rule chains; exhaustive canonical-rule sweep + extracted grammars, all binarization modes',
 'C08': 'offline conservation checker (per-nonterminal counts, flow conservation per symbol) over the grammars recorded from the real extract/binarize in every mode',
 'C12': 'runtime contract with OLD snapshot on the real root_attach vs a set-based reference of the docstring; exhaustive small-shape sweep + random workload',
 'C16': 'runtime contracts on gap_degree_node/terminal_blocks/gap_degree/disco_order vs set-based runs; accumulator reports through API and real CLI subprocesses on independently encoded files',
 'C19': 'runtime contracts (icontract) on the real navigation functions + set-based reference model; exhaustive small-shape sweep + random workload',
 'C20': 'runtime contracts on parse_label/format_label/get_label; inversion + per-component removal oracles; exhaustive string sweep + structured random labels',
}
TEXT = {
 'C01': 'every tree the real readers yield for files produced by independent encoders (export v3/v4 with headers, comments, secondary edges, shuffled lines; brackets in three layouts; discobrackets; TIGER-XML with shuffled attributes/nodes) is snapshot, checked well formed and compared with the spec under the documented meaning of the reader options, incl. cross-format agreement of gf_split/replace_parens; the bracket automaton state is probed at every lexer token (all 26 reachable state/class pairs observed) and all token-class sequences up to length 9/11 are judged by an independent scanner. Held on the executions observed.',
 'C02': 'the text each writer call emits is decoded by independent decoders and must give back sid, tokens, order, labels, edges and dominance (whatever the format carries) plus the export layout obligations, decorations on exactly the right nodes, defaults for None fields, and refusal/skipping of exactly the discontinuous trees by the bracket writer; every subset of the 11 documented options on small trees, random subsets on random trees, 5 formats. Held on the executions observed.',
 'C03': 'about 800 (quick) / 20 000 (thorough) real command-line conversions: every source x destination pair, A->B->A and A->B->C chains, B->B byte-for-byte idempotence with the tool\'s own reader, utf-8/latin-1/utf-16 on both sides, gzip and directory sources; destination decoded independently and compared on the intersection of what both formats carry. The command line must also equal, byte for byte, the composition of the library functions it names (reader with --src-opts, --trans in the order given with --params, writer with --dest-opts) under random subsets of all documented options. Held on the executions observed.',
 'C09': 'grammars from an independent reference extraction (raw and binarized in random modes) and synthetic grammars of enumerated canonical rules are written in PMCFG/RCG/LoPar (+-lex_in_grammar, utf-8/latin-1) through API and CLI and decoded independently: rules, linearizations, counts, lexicon, start symbols, open-class files; RCG re-read with the tool\'s reader and used as input of `treetools grammar`; LoPar must refuse non-context-free grammars. Held on the executions observed.',
 'C17': 'all specifications of up to 3 (quick) / 4 (thorough) parts over a value grid x sizes 0..25/60, 100, 101, 1000 against exact integer arithmetic incl. rejection of malformed, negative, double-rest and oversized specifications; real split runs in all five formats (with/without filter_by_length): each part decodes, holds exactly its share, concatenation equals the unsplit run, and the tool\'s own reader accepts every part. Held on the executions observed.',
 'C18': '160 (quick) / 2 500 (thorough) sessions of 25/40 interleaved operations with repetition: outputs must not depend on position in the session, must equal the output of the single operation in fresh processes (PYTHONHASHSEED 0/1/random; set-like files as sorted multisets), two alternately advanced readers must equal separate reads, A+B results must be the concatenation/sum, new module-level state widens the probes (every operation repeated at the end and compared with a fresh process) but is not itself a verdict, no operation may open another operation\'s files, twin operations (same input, other parameters) share a session, a pipeline gives the same output with and without another reader call and whether it streams or reads ahead. Held on the executions observed.',
 'C04': 'every call of a structural transformation made while driving 8 000 (quick) / 300 000 (thorough) prerequisite-respecting sequences of up to 5/7 steps, plus every transformation alone on all shapes up to 4/5 tokens, is checked: returned node is a parentless root of a well-formed tree, words/POS unchanged (modulo + concatenation), label multiset as documented per transformation. Held on the executions observed.',
 'C10': 'each emitted sequence is executed by an automaton that knows only the sentence and the transition names and must consume all tokens, end in one item and rebuild the input tree incl. unary nodes, root, labels and head sides; all binary shapes up to 4/5 tokens x head assignments, random trees to 30 tokens, pipeline-produced trees, the plain writer and `treetools transitions` runs. Held on the executions observed.',
 'C11': 'result of every call compared with reference semantics (deleted set, pruning, renumbering, insertion positions, substitution, filter decision, returned root, printed report) on trees with punctuation/traces in hostile positions and terminal files with valid/0/negative/len+1/len+2/duplicate/foreign entries. Also judged inside random prerequisite-respecting sequences of other transformations on the same live tree (vt/pipeline.py) and on trees built by the repository readers. Held on the executions observed.',
 'C13': 'state predicates of the three docstrings on the result plus the frame condition (only (paired) punctuation tokens change parent; tree stays well formed) for all shapes up to 4/5 tokens x all punctuation placements and random trees with punctuation density 0-100 %, +-root_attach, +-relc. Also judged inside random prerequisite-respecting sequences of other transformations on the same live tree (vt/pipeline.py) and on trees built by the repository readers. Held on the executions observed.',
 'C14': 'binarize: arity <= 2, added nodes labelled @+parent label without co-index (or bare), splice-out restores the input, unmarked wide trees rejected; collapse equals the reference, leaves no unary node; uncollapse(collapse(t)) returns a parentless root equal to t; arity 1..8 x head position sweep + random. Also judged inside random prerequisite-respecting sequences of other transformations on the same live tree (vt/pipeline.py) and on trees built by the repository readers. Held on the executions observed.',
 'C15': 'after either marker exactly one head child per constituent, root unmarked; NeGra heuristic recomputed from snapshot edges; for both presets every parent category with child sequences in which exactly one child is listed (random case, -GF/-n/=n decorations); invalid configurations must raise ValueError. Also judged inside random prerequisite-respecting sequences of other transformations on the same live tree (vt/pipeline.py) and on trees built by the repository readers. Held on the executions observed.',
 'C05': 'every boyd_split and raising execution of the workload is compared node for node with a set-based reference (one node per block with block numbers and a unique head block; head-run kept, rest floated) and the result is checked continuous with tokens and label multiset unchanged. All shapes up to 5/6 tokens x head assignments plus random trees to 40 tokens, gap degree to n/2, three head sources, +-root_attach. Also judged inside random prerequisite-respecting sequences of other transformations on the same live tree (vt/pipeline.py) and on trees built by the repository readers. Held on the executions observed.',
 'C06': 'the grammar/lexicon delta of every extract call equals one (rule, linearization, vertical context) occurrence per constituent and one lexicon occurrence per token as computed from a set-based model, the stored linearization is re-applied to the child blocks, and treebank-level totals (counts per LHS, fan-outs, context-freeness) are compared with the spec. Random treebanks with repeated rules. Held on the executions observed.',
 'C07': 'for every rule handed to binarize_rule the recorded labels must name a chain in the returned grammar whose stored linearizations compose (symbolic evaluation) to the original yield with consistent fan-outs; deterministic mode is un-binarized and compared with the input; reorderings must be pure renamings. Complete canonical-rule sweep (rank<=4, <=6/7 variables) + extracted grammars, deterministic and 32 Markov modes x 2 reorderings. Held on the executions observed.',
 'C08': 'per-nonterminal count sums and per-symbol flow conservation are checked on the treebank grammar and on every binarized grammar (deterministic + Markov v,h 0..3 +-nofanout, both reorderings) against node/token/root counts known from the treebank spec. Held on the executions observed.',
 'C12': 'the parent of every node after every root_attach execution equals a set-based reference of the docstring; nothing but root children moves; fields untouched. All shapes up to 5/6 tokens plus random trees with 1..9 root children. Also judged inside random prerequisite-respecting sequences of other transformations on the same live tree (vt/pipeline.py) and on trees built by the repository readers. Held on the executions observed.',
 'C16': 'gap degree, blocks, tree gap degree, continuous reordering are compared with set-based runs on every node; GapDegree/PosTags/SentenceCount totals via API and via real `treetools treeanalysis` processes; agreement of the three discontinuity notions per tree. Held on the executions observed.',
 'C19': 'every evaluation of children/terminals/preorder/postorder/siblings/lca/dominance/levels/export numbering made during the workload (incl. the internal ones) is compared with a set-based model; all unordered tree shapes up to 5 (quick) / 6 (thorough) tokens with shuffled child lists plus random trees to 40 tokens. Held on the executions observed, not a proof.',
 'C20': 'format(parse(s)) == s (modulo the two documented default literals), exact removal of each emptied component, trace recognition, separator handling and get_label decorations are checked on every string over a 9-letter alphabet (letters, digits 1 and 0, dash, equals, hash, apostrophe, asterisk) up to length 6 (quick) / 7 (thorough) and on structured random labels with known parts. Held on the executions observed.',
}
NOTE = 'trusted: vt/model.py (independent set-based tree model), the spec generators; the repository is only executed and observed. Hooks are attached from outside (no source change).'
def main():
    claimed = [p for p in ALL if p in TECH]
    man = {
      'version': 1,
      'setup_cmd': './setup.sh',
      'hooks': {'guard': 'TREETOOLS_VERIF',
                'enable': 'no source hooks: vt/contracts.py attaches contracts/monitors to the imported repository modules at run time (setattr on module attributes, generator wrappers, recording streams, sys.monitoring, audit hook) and refuses to do so unless TREETOOLS_VERIF=1; ./vcheck sets it. Checks import the package from /repo\'s working tree ($VT_REPO overrides for self-tests).',
                'baseline_off_cmd': 'cd /repo && /venv/bin/python -m pytest -ra -q -p no:cacheprovider --timeout=900 --continue-on-collection-errors',
                'source_commits': [], 'add_only': True},
      'engines': [{'name': 'vt', 'path': 'vt/', 'serves_properties': claimed,
                   'kind_free_text': 'runtime monitoring: contracts on real functions, generator/stream monitors, reference-model oracles, offline log checkers, sharded seeded workloads'}],
      'checks': [],
      'not_applicable': [],
      'notes': 'exit 0 held / 1 VIOLATION / 2 INCONCLUSIVE (never folded). See DESIGN.md.'}
    for p in claimed:
        man['checks'].append({
          'property_id': p,
          'quick_cmd': './vcheck %s quick' % p,
          'thorough_cmd': './vcheck %s thorough' % p,
          'evidence_file': 'evidence/%s.json' % p,
          'replay_cmd_template': './vcheck %s --replay {path}' % p,
          'engine': 'vt',
          'level_claimed': {'category': 'exploration', 'text': TEXT[p], 'design_ref': 'DESIGN.md 5/%s' % p},
          'level_note': NOTE,
          'technique': TECH[p]})
    for p in ALL:
        if p not in claimed:
            man['not_applicable'].append({'property_id': p, 'reason': 'check under construction in this round (runtime monitor planned in DESIGN.md 5/%s); not claimed until it runs clean' % p})
    with open(os.path.join(HERE, 'MANIFEST.json'), 'w') as f:
        json.dump(man, f, indent=1)
        f.write('\n')
if __name__ == '__main__':
    main()
